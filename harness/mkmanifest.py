"""writes /verif/MANIFEST.json from the table below (kept in one place so it stays valid)"""
import json
import os

VERIF = os.path.dirname(os.path.dirname(os.path.abspath(__file__)))
BASE = "cd /repo && /venv/bin/python -m pytest -ra -q -p no:cacheprovider --timeout=900 --continue-on-collection-errors"

CHECKS = {
    'C01': dict(
        engine='list',
        technique='Lean 4 proof (induction: deque loop = ASTM stack machine; pv = reversal sequence; table = histogram; conservation) + exact model/implementation correspondence on the dyadic grid',
        text='Theorems for every history: the code-shaped model of astmRainflowCounting equals the E1049 5.4.4 stack machine on the reversal sequence cycle for cycle, its table is the histogram of its cycles, the counts total (R-1)/2, the largest counted range is the overall range max-min, and every whole cycle was extracted as a closed loop (nested in both neighbouring ranges). The model is tied to /repo/src by exact differential correspondence (sequence, table and matrix outputs) on tie-rich histories; the same Lean predicates are evaluated on the implementation output.',
        note='Trusted: Lean kernel + 3 standard axioms; hand-written model FF.implGo/FF.pv tied by correspondence (sampled, plus all histories <= 6 points over 4 values quick / <= 8 over 5 thorough); integer (dyadic-grid) arithmetic stands for exact float arithmetic; numpy coercion and dict/argsort aggregation compared not proved.',
        ref='§5 C01'),
    'C02': dict(
        engine='list',
        technique='Lean 4 proof (invariants by induction over each counter: strictly alternating residue, point conservation, Dec residue for range-pair) + exact model/implementation correspondence',
        text='Theorem C02_census: for each of the seven counter models and every non-constant history all clauses of the census predicate hold (table = histogram, ranges in (0, max-min], end points are reversals, totals bounded / exact, whole cycles only, range-pair leaves at most one range). The seven models are tied to /repo/src by exact correspondence in both output modes; the same predicate is evaluated on the implementation output.',
        note='Trusted: Lean kernel + standard axioms; hand-written list models of the seven counters (linked-index bookkeeping modelled as stack / list deletion) tied by sampled + small-scope-exhaustive exact correspondence; exact arithmetic on the dyadic grid stands for binary64; aggregation rounding to 8 decimals is the identity on the grid.',
        ref='§5 C02'),
    'C05': dict(
        engine='list',
        technique='Lean 4 proof (per-segment window = strict crossings at untouched levels; reversal-sequence peaks = extrema of the de-plateaued history) + exact model/implementation correspondence',
        text='Theorems for every history, reference and level set: the level-crossing model reports, at each requested level no reversal touches, exactly the upward (level >= ref) or downward (level < ref) crossings of the reversal polyline, only requested levels with positive counts, events segment by segment; the peak-count model lists exactly the local maxima >= ref and minima < ref of the de-plateaued history in time order and its table is their histogram. Models tied to /repo/src by exact correspondence (default and user level sets); the same predicates run on the implementation output. Strict time order inside one falling segment is a recorded known finding.',
        note='Trusted: Lean kernel + standard axioms; hand-written models (np.searchsorted windows modelled as filters over the sorted distinct level list; default grid floor(min)..ceil(max) modelled by floor division on the grid) tied by sampled exact correspondence; dyadic-grid arithmetic stands for binary64.',
        ref='§5 C05'),
    'C19': dict(
        engine='list',
        technique='Lean 4 proof (induction over the filter loops; integer division facts for rounding and binning) + exact model/implementation correspondence',
        text='Theorems for every series, gate, resolution and bin: the peak-valley filter returns the strict turning points (plus ends), a strictly alternating subsequence, is idempotent (modulo ends for keepEnds=False) and keeps the global extremes; the hysteresis filter keeps the first point and last value and drops only points strictly inside the gate of the last kept point; digitisation gives the nearest multiple with ties to even, is idempotent and monotone; aggregation conserves the total and returns sorted distinct multiples of the bin within half a bin of each non-negative value. All four models tied to /repo/src by exact correspondence; the predicates also run on the implementation output.',
        note='Trusted: Lean kernel + standard axioms; hand-written models (np.rint / int() modelled by integer division on the common grid; resolution, gate and bin restricted to grid values) tied by sampled exact correspondence; the executable gate predicate embedOK is the DP counterpart of the inductive relation Kept used in the theorem (not proved equivalent).',
        ref='§5 C19'),
    'C06': dict(
        engine='list',
        technique='Lean 4 proof (one whole cycle per local maximum of the de-plateaued history; unique-top scan equivalence) + exact model/implementation correspondence + the theorem of Rychlik via confluence of four-point extraction',
        text='Theorems for every history: each interior local maximum of the de-plateaued history yields exactly one whole Rychlik and one whole Johannesson cycle whose top is that maximum; the Johannesson bottom is the lowest de-plateaued sample since the history was last at or above the top (raw-history form, no uniqueness needed); with a unique top the Rychlik bottom is the higher of that value and its mirror image after the top (raw-history form); on every non-constant history closed at its global minimum the Rychlik table equals the rainflow table, equal-height peaks included (C06_rainflow_eq). The same predicates are evaluated on the implementation output over random and all small histories. Models tied to /repo/src by exact correspondence.',
        note='Trusted: Lean kernel + standard axioms; hand-written models FF.rychlik/FF.johannesson tied by sampled + small-scope-exhaustive exact correspondence. Known finding: constant histories.',
        ref='§5 C06'),
    'C07': dict(
        engine='list',
        technique='Lean 4 proof (accumulation loop = from-to matrix by induction over the cycle list; collapse = table by uniqueness of sorted positive tables) + exact model/implementation correspondence',
        text='Theorem C07_matrix: for every cycle list the code-shaped matrix model has sorted distinct keys, is square, has entry (i,j) equal to the total count from key i to key j, sums to the total count and collapses by |key_j-key_i| to the aggregated table; hence for all seven functions on every digitised history. Empty count gives the empty matrix. The seven functions are tied to the composed models (digitise, count, encode) by exact correspondence; the predicate also runs on the implementation output against the counter\'s own outputs on the digitised history.',
        note='Trusted: Lean kernel + standard axioms; hand-written model FF.toMatrix (np.unique modelled as sorted distinct list, key strings parsed back to grid values); counter and digitisation models as in C02/C19; dyadic-grid arithmetic.',
        ref='§5 C07'),
    'C03': dict(
        engine='list',
        technique='Lean 4 proof (filter invariance under the inductive refinement relation; commutation of every counter with range-similarities; time reversal of the reversal sequence) + metamorphic evaluation on the implementation',
        text='Theorems about the code-shaped models, for all histories: inserting samples inside the interval of consecutive samples or repeating samples leaves the filter output and hence all seven cycle counts, the level-crossing count (incl. its default level grid) and the peak count unchanged; adding a constant leaves all range tables unchanged and scaling by c>0 scales every range by c (all seven counters; events of level crossing / peak counting move with the load); negation leaves simple-range, rainflow, range-pair, four-point unchanged; time reversal leaves the simple-range, rainflow, four-point and Rychlik tables unchanged (C03_reverse, ties included: four-point extraction is a confluent rewriting system and each of these histograms is extracted cycles plus a residue contribution). The metamorphic relations are evaluated on the implementation for all nine functions.',
        note='Trusted: Lean kernel + standard axioms; models tied to /repo/src by the exact correspondence run in checks C02 and C05; integer scale factors and offsets on the dyadic grid stand for real c>0 and offsets (exact arithmetic).',
        ref='§5 C03'),
    'C04': dict(
        engine='list',
        technique='Lean 4 proof (simulation between the rainflow and range-pair stack machines; four-point extraction as a confluent rewriting system; refinement / rotation lemmas for the repeating count) + Lean predicates for all six clauses evaluated on the implementation over random and all small histories',
        text='All six clauses are theorems about the code-shaped models, for every history, ties included (Proofs/C04Full.lean): on a non-constant history closed at a global extreme rainflow, range-pair and repeating-history tables coincide and four-point gives that table minus the single max-min closing cycle; the repeating-history table does not depend on where the closed period is cut; for any history the four-point cycles plus half cycles of its leftover reproduce the rainflow table, four-point equals the rainflow whole cycles when no compared ranges tie, and range-pair contains the rainflow whole cycles. The same clauses are evaluated by executable Lean predicates on the implementation output over random tie-rich histories, every cut of each period, and all histories of length <= 6 over 4 values (quick) / <= 8 over 5 (thorough).',
        note='Trusted: Lean kernel + standard axioms; models tied to /repo/src by the exact correspondence of check C02; the leftover of clause (d) is taken from the model after checking its cycle list against the implementation.',
        ref='§5 C04'),
    'C09': dict(
        engine='formula',
        technique='Lean 4 proof over the reals (field_simp / ring / linarith) about definitions REGENERATED from the Python source on every run by harness/translate.py, plus translation validation at Float',
        text='The three correction functions are translated from src/ffpack/lcc/meanStressCorrection.py into one generic-scalar Lean definition each on every run. Theorems at the reals, for every admissible range, strength and n >= 1: Goodman sa/s + sm/su = 1/n, Soderberg sa/s + sm/sy = 1/n, Gerber n*sa/s + (n*sm/su)^2 = 1; value sa at zero mean and n = 1; degree-one homogeneity; growth with n and with the mean stress; Gerber <= Goodman <= Soderberg for sy <= su. A change of the Python formula changes the generated text and the proofs are re-checked; the defining equations are also evaluated on the implementation (failing-input search) and the raise-guards are compared with the generated _ok predicate.',
        note='Trusted: Lean kernel + standard axioms + Mathlib; harness/translate.py (validated each run: Float instance of the generated text vs the Python function, 1e-11 relative, and guard outcome); real arithmetic stands for binary64 (residuals checked at 1e-9); isinstance/shape guards are not modelled.',
        ref='§5 C09'),
    'C18': dict(
        engine='formula',
        technique='Lean 4 proof over the reals about definitions REGENERATED from the Python source on every run (21 translated variants of the ten spectra), translation validation at Float, numerical quadrature of the implementation as failing-input search',
        text='Theorems at the reals about the regenerated definitions: non-negativity of all ten spectra on the admissible domain; ISSC, Gaussian-swell and JONSWAP (beta = 5/4, gamma >= 1) are maximal at the stated peak frequency; JONSWAP = (gamma = 1 form) x gamma^r with the factor in [1, gamma] and equal to gamma at the peak; each normalised wind spectrum equals f*S(f)/scale of the dimensional one at the reduced frequency (Davenport x2, EC1 x5 terrain categories, IEC x3 components). Area theorems (Proofs/C18Areas.lean): the integral over (0, inf) equals Hs^2/16 (ISSC), alpha g^2/(4 beta) (Uw/g)^4 (Pierson-Moskowitz), (Hs1^2+Hs2^2)/16 (Ochi-Hubble, via the Gamma integral), sigma_k^2 (EC1 x5, IEC x3), 6 kappa U^2 and 6 u*^2 (Davenport); Gaussian swell integrates to Hs^2/16 over the real line. Every area, peak and relation is also evaluated numerically on the implementation (quadrature), which is what exhibits a failing input when a constant or exponent is edited and a proof breaks.',
        note='Trusted: Lean kernel + standard axioms + Mathlib; harness/translate.py validated each run at Float (1e-9 relative, Gamma by Lanczos in the Float instance only); for the two Davenport forms the normalising scale is kappa*U^2 resp. u*^2 (= variance/6) as in the code, its documentation and the source paper (DESIGN §7).',
        ref='§5 C18'),
    'C08': dict(
        engine='formula',
        technique='Lean 4 proof over the reals about a code-shaped generic-scalar model (accumulation loop with sentinel, closed-form least squares) + Float evaluation of the same model compared with the implementation',
        text='Theorems at the reals about the model: the accumulation loop equals the sum over rows of (0 if S <= limit else count / 10^(a S + b)); additive over concatenation, proportional to the counts, permutation invariant, non-negative, zero for rows at or below the limit (boundary included), non-decreasing when a stress level is raised on a falling curve; the naive model is the sum of C/F; the closed-form (a, b) satisfies the normal equations and interpolates two points exactly. The model is evaluated at Float and compared with minerDamageModelClassic/Naive and SnCurveFitter.getN (1e-8 / 1e-9), and the consequences are evaluated on the implementation.',
        note='Trusted: Lean kernel + standard axioms + Mathlib; hand-written model FF.Miner tied by tolerance correspondence at Float; np.polyfit trusted to return the least-squares line (compared with the closed form on every case); np.log10 / np.power as libm; real arithmetic stands for binary64.',
        ref='§5 C08'),
    'C20': dict(
        engine='formula',
        technique='Lean 4 proof: kernel evaluation of the moment conditions on the weight tables REGENERATED from the source; polynomial exactness from the moment conditions (Taylor expansion, Mathlib); Vandermonde inverse for the general weights; exact rational solve in the Lean driver compared with the implementation',
        text='Theorems: every hard-coded table of derivative() (extracted from the AST on every run) satisfies sum w_k k^j = n! [j = n] for j < m (decide +kernel); for any weights meeting the moment conditions the stencil sum of every real polynomial of degree < m equals dx^n times its n-th derivative at every point and step; the general weights n! (V^-1)_n of centralDiffWeights meet the moment conditions for any distinct nodes, hence are exact too. centralDiffWeights is compared with an exact rational solution computed (and self-checked) in Lean; derivative / gradient / hessianMatrix are evaluated on random polynomials and quadratics, gramSchmidOrth on random full-rank matrices (orthonormality, first column, J A = B). Also proved: a partial derivative computed by the stencil along one coordinate is exact when the restriction is a polynomial of degree < m; the nested 3-point difference quotient of a quadratic form x^T A x equals A + A^T at every point and step (every dimension); the code-shaped Gram-Schmidt loops (sequential projection then normalisation, over any real inner-product space) return, for linearly independent inputs, an orthonormal list of the same length and span whose first element is the normalised first input; J = B A^-1 satisfies J A = B. Not modelled: the column-swap pre-loop for an alignment vector parallel to a later column (excluded by the hypothesis of the property).',
        note='Trusted: Lean kernel + standard axioms + Mathlib; the table extractor in harness/translate.py; scipy.linalg.inv and numpy.linalg are external (results compared, not proved); rounding: comparisons at 1e-9 relative on dyadic points and steps.',
        ref='§5 C20'),
    'C14': dict(
        engine='oracle-stream',
        technique='Lean 4 proof about code-shaped models of one sampler step (decision rule, negative densities, support invariance for positive draws, witness of the u = 0 finding) + detailed balance of the induced finite-state kernels (Mathlib, Proofs/C14Balance.lean) + trace validation of the implementation with scripted proposals and uniform draws',
        text='Theorems for every target, domain test and every pair (candidate, uniform draw): one step of the plain sampler moves to the candidate exactly when the draw is at most the density ratio and the move stays in the domain, otherwise stays put; a negative density is an error; with a positive draw the chain never leaves the support; the component-wise sampler applies the rule per coordinate and tests the assembled candidate once. The induced transition kernels on finite state spaces (symmetric proposal, acceptance probability min(1, ratio), domain test on the destination; and the product of per-coordinate kernels followed by one domain test) have rows summing to one, are non-negative, satisfy detailed balance with respect to the target (resp. product target) restricted to the domain, and leave that restricted target stationary. The implementation is driven with scripted proposals / draws / integer-valued target tables and must reproduce every decision of the model (trace validation). The u = 0 corner (move onto a zero-density candidate) is proved of the model and recorded as a known finding.',
        note='Trusted: Lean kernel + standard axioms; hand-written models tied by trace validation (np.random.uniform, proposal, target, domain test observed / scripted from outside); detailed balance is for finite state spaces (continuous spaces are modelled by it, not formalised).',
        ref='§5 C14'),
    'C16': dict(
        engine='oracle-stream',
        technique='Lean 4 proof (the four lag loops satisfy, and are the unique solution of, the documented recurrences for all orders, lengths and noise streams; random-walk step/decoding facts) + exact correspondence with the noise / randint streams scripted',
        text='Theorems for all orders p, q >= 1, lengths (incl. shorter than the order), coefficients, observations and noise streams: the code-shaped models of arNormal, maNormal, armaNormal, arimaNormal have the requested length, begin with the observations and satisfy the documented recurrences (missing lags read as 0; ARIMA on first differences), and the recurrences determine the sequence uniquely; with a constant noise stream (zero spread) the output is the deterministic recurrence. The walk model starts at the origin, has numSteps+1 points, each step changes exactly one coordinate by exactly one, and the randint decoding is a bijection onto axis x sign. Models tied to /repo/src by exact correspondence with np.random.normal / randint replaced by scripted integer streams; with the real generator the noise is checked to be normal(mu, sigma, N) drawn after seed(randomSeed).',
        note='Trusted: Lean kernel + standard axioms; hand-written models tied by exact correspondence (unbounded Python ints, so exact); numpy bit generator external; AR is stated under len(obs) = len(phis), which the implementation enforces (without it the model reads rst[0] for a truncated index: counterexample recorded in the proof file).',
        ref='§5 C16'),
    'C15': dict(
        engine='state-machine',
        technique='Lean 4 proof over all operation sequences of a state machine for numpy\'s global generator (seeded-call determinism, global-seed governance, inert construction) + protocol conformance of the implementation\'s observed seed/draw events + black-box replay from different prior generator states',
        text='Theorems over every operation sequence and every prior generator state: a call with an integer seed consumes exactly the first draws of that seed\'s stream (so two such calls agree whatever was drawn before); after globalConfig.setSeed(n) the outputs of any sequence of calls passing no integer seed are a function of n and the sequence only; constructing a randomised object without an integer seed leaves the generator untouched. The implementation is tied to the machine by wrapping np.random.seed and every draw function from outside and checking, for random operation sequences over all ten randomised APIs, that its event trace is the contract\'s (seed called iff the argument is an int, with that value, before any draw; never with None except in setSeed(None)), and by replaying each sequence from different prior generator states and comparing outputs bit for bit.',
        note='Trusted: Lean kernel + standard axioms; the abstract generator (a stream is identified by its seed; entropy re-seeding yields a fresh stream); the wrappers around numpy.random; "constructing never disturbs" is decided for constructions without an integer seed (an integer seed must restart the stream by the first clause).',
        ref='§5 C15'),
    'C13': dict(
        engine='oracle-stream',
        technique='Lean 4 proof about a code-shaped model of the level bookkeeping for every oracle stream (chain history) + trace validation of the implementation (chain evolution observed from outside, replayed through the model) + invariants evaluated on un-mocked runs',
        text='Theorems for every chain history that respects the sampler contract of C14 (a kept move passed the domain test g < threshold): every level holds exactly N samples sorted by g; the seeds are at or below the threshold (the p0-quantile floored at zero); if the chains renew the whole level then every sample of level k+1 is at or below the level-k threshold; the stored failure fraction and the product pf lie in [0, 1]. The implementation is tied to the model by trace validation (limit state and sampler class wrapped from outside; the model reproduces every level from the observed chain states on an order/sign-preserving integer image of g), and nestedness, sortedness, X = T(U) with g evaluated on X, and the pf formula are evaluated on un-mocked runs over four limit states. The statistical-error-band sentence is a labelled statistical test in the thorough tier.',
        note='Trusted: Lean kernel + standard axioms; hand-written model FF.Subset tied by trace validation; the chain contract is C14\'s theorem plus the domain function of the source (observed, not modelled); pf clause decided for runs reaching the zero level; distributional clause tested only.',
        ref='§5 C13'),
    'C11': dict(
        engine='real-analysis',
        technique='Lean 4 proof over the reals about a code-shaped model of getU / getX / the two returned matrices / pdf / cdf with abstract marginals (round trips, mutually inverse Jacobians, each returned matrix is the derivative of the other map, factorisation at identity correlation, normal and lognormal latent-correlation identities) + tolerance checks of the implementation over eight marginal families',
        text='Theorems: X->U->X and U->X->U are the identity (given the inverse pairs F_i / F_i^-1, Phi / Phi^-1, L / L^-1); the matrices returned by getU and getX are inverses of each other and each is the derivative (every partial, HasDerivAt) of the OTHER map; with identity latent correlation pdf = prod f_i and cdf = prod F_i; for normal marginals the standardised X equal the latent Z so both have correlation L L^T; the lognormal closed form inverts the lognormal correlation formula. PARTIAL: pdf integrates to one and cdf is the integral of the pdf are NOT theorems (measure theory over R^n); they are checked by quadrature on the implementation, which exhibits the recorded known finding (latent covariance scaled by the marginal standard deviations). The implementation is tied by tolerance checks (round trips, Jacobian products, finite differences, latent correlations, Gauss-Hermite correlation of the mapped variables, factorisation, quadrature) and a fault-injection test of the fallback root search.',
        note='Trusted: Lean kernel + standard axioms + Mathlib; scipy.stats distributions, Gauss-Legendre quadrature, fsolve, Cholesky are external; tie at tolerances 1e-8 .. 2e-3; known finding: pdf/cdf use diag(std) rhoZ diag(std) (pinned by three repository tests).',
        ref='§5 C11'),
    'C10': dict(
        engine='real-analysis',
        technique='Lean 4 proof over real inner-product spaces / matrices about a code-shaped model of the HL-RF update (fixed point lies on the linearised limit state, one-step exactness on affine limit states, scale invariance, linear-Gaussian beta = E[g]/sd[g], agreement with mean-value FOSM, one-variable pf = F(c)) + tolerance checks of hlrfFORM, coptFORM, mvalFOSM on random linear-Gaussian problems',
        text='Theorems: a fixed point u* of the HL-RF update with non-zero gradient satisfies G(u*) = 0, u* = -beta alpha and |beta| = |u*|; for an affine limit state one update from ANY start lands on the design point with beta = b/|a|, which is a fixed point on the limit state; the update is invariant under g -> k g (k > 0); for g = c.x + d with jointly normal x (any correlation rho = L L^T) the U-space limit state is affine with squared gradient norm c^T D rho D c, hence beta = E[g]/sd[g]; for independent variables this is the mean-value FOSM index; for one variable with any marginal pf = Phi(-beta) = F(c). The implementation is tied by tolerance: beta vs the exact value (hlrfFORM 1e-5 with analytic and numerical gradients, coptFORM 2e-4, mvalFOSM 1e-9), g(x*) = 0, x* = T(u*), |beta| = |u*|, pf = Phi(-beta), invariance under 7 g, negative beta included.',
        note='Trusted: Lean kernel + standard axioms + Mathlib; convergence of the iteration, SLSQP in coptFORM and the numerical gradient are modelled, not verified; tie by tolerance.',
        ref='§5 C10'),
    'C12': dict(
        engine='formula',
        technique='Lean 4 proof over the reals about a code-shaped generic-scalar model of the three closing formulas (zero curvature, permutation invariance, product formulas, sign clause) and the linear algebra of the curvature extraction (leading block of the conjugated Hessian is orthogonally similar to diag(k)) + Float evaluation of the model and tolerance checks of the implementation on rotated paraboloids and flat limit states',
        text='Theorems: with all curvatures zero Breitung, Tvedt and Hohenbichler-Rackwitz equal Phi(-beta); Breitung = Phi(-beta) prod (1 + beta k_i)^-1/2 and H-R with phi(beta)/Phi(beta) in place of beta; all three are invariant under permutation of the curvatures; non-negative curvatures lower and curvatures in (-1/c, 0] raise the estimate relative to FORM; for any rotation R the leading block of the conjugated paraboloid Hessian equals R diag(k) R^T and has characteristic polynomial prod (X - k_i), so the extracted curvatures do not depend on the rotation or ordering of the axes. The closing formulas are evaluated at Float and compared with the implementation (curvature extraction replaced as in the repository tests); the full pipeline is checked on rotated paraboloids (also through correlated normal marginals) and on flat limit states (correlated normals, lognormal product / ratio).',
        note='Trusted: Lean kernel + standard axioms + Mathlib; Phi / phi values supplied by scipy to the Float model; coptFORM (SLSQP), numerical Hessian, np.linalg.eig and Gram-Schmidt conditioning are modelled, not verified; tolerance 2e-3 on curvature-dependent results.',
        ref='§5 C12'),
    'C17': dict(
        engine='real-analysis',
        technique='Lean 4 proof over the reals / complex numbers about a code-shaped model of the synthesiser and the mathematical periodogram (roots-of-unity sums: amplitude bound, mean-square = spectral area, periodogram at the component bins, Parseval area = variance, quadratic scaling, sampling-rate invariance) + Float evaluation of the model and identities evaluated on the implementation and on scipy',
        text='Theorems: the synthesised series has one sample per index at times k/fs and never exceeds the sum of its component amplitudes sqrt(2 S_i bw); when every used component completes whole periods strictly below Nyquist (distinct bins 0 < 2 m_i < n) the mean square equals sum S_i bw exactly (also stated on the model itself), and the one-sided periodogram of that series times the bin width returns S_j bw at bin m_j (S_j itself when bw = fs/n); for every real series the one-sided density of the mean-removed series is non-negative, its area over the grid p fs/n equals the population variance (Parseval, Nyquist bin handled), it scales with the square of the amplitude and its area does not depend on fs. The synthesiser model is evaluated at Float with scripted phases and compared with the implementation; the wrappers are checked to forward to scipy.signal unchanged and the identities are evaluated on scipy output (periodogram and Welch).',
        note='Trusted: Lean kernel + standard axioms + Mathlib; scipy.signal.periodogram / welch are external (wrapper identity checked; the theorems are about the mathematical periodogram, Welch only through the scaling / rate-invariance identities on tested series); tolerance 1e-9.',
        ref='§5 C17'),
}

NOT_YET = {}

# additions of the later rounds (appended to the entries above)
ADD = {
    'C08': dict(technique=' + definitions REGENERATED from the numpy vector expressions of the source (harness/translate_vec.py) proved equal to the model for every scalar type',
                text=' The closed-form line is proved to MINIMISE the sum of squared residuals (lsq_minimises). The naive sum is regenerated from the source text on every run (Gen/VecFormulas.lean) and proved equal to the model (naiveDamage_eq).',
                note=' np.polyfit is compared with the closed form, which is the least-squares minimiser by theorem.'),
    'C10': dict(technique=' + Lean 4 proof about an EXECUTABLE model of the whole hlrfFORM loop, mvalFOSM and the Nataf map for normal / lognormal marginals (Model/{Linalg,Chol,Nataf,Form}.lean), tied to the implementation iterate by iterate (evaluation points of g observed through the callback)',
                text=' About the executable loop model (Proofs/C10Loop.lean): whenever the model of hlrfFORM returns, the returned (beta, u*, x*) is one HL-RF step from some iterate, x* = T(u*), |u*| = |beta| and, unless iter = 1, |g| < tol |grad G| at the last evaluation point (C10m_hlrf_return); every iterate has |u| = |beta|; when the loop leaves through its tolerance test |g(x)| < tol |grad G|; the whole loop (outcome, number of steps, every iterate) is invariant under positive rescaling of g; for a linear limit state of normal variables with any correlation the loop RETURNS for every iter >= 1 and tol > 0 with beta = (d + sum c_i mu_i) / |L^T D c|, the design point on the limit state, |L^T D c|^2 = c^T D rho D c when L L^T = rho; no feasible point of the constrained formulation is closer to the origin (agreement with coptFORM); for L = 1 this is the regenerated mvalFOSM index (fosmBeta_eq).',
                note=' The executable loop model is compared with hlrfFORM on random problems (normal / lognormal marginals, linear and quadratic limit states, random tol / iter): outcome, number of iterations, every evaluation point, beta, uCoord, xCoord at 1e-7 relative (looser only where the implementation itself loses the upper tail, DESIGN 7).'),
    'C11': dict(technique=' + Lean 4 proof about an EXECUTABLE model of the transformation for normal / lognormal marginals including its own Cholesky factorisation and triangular inverse (Model/{Chol,Nataf}.lean), compared with the implementation (L, L^-1, rhoZ, getU, getX, both matrices)',
                text=' About the executable model (Proofs/C11Chol.lean, C11Model.lean): the outer-product Cholesky algorithm returns a lower-triangular L with positive diagonal and L L^T = A for every symmetric A with positive pivots, and on every symmetric positive-definite A all pivots are positive (chol_pivots_of_posdef); forward substitution returns X with L X = X L = 1; for the model built from them X->U->X and U->X->U are the identity on the support, the two returned matrices are inverse to each other, each is entrywise the partial derivative (HasDerivAt) of the other map; lognormal pair: the closed-form latent correlation reproduces the prescribed one.',
                note=' The executable model is compared with NatafTransformation on random problems: L 1e-11, L^-1 1e-9, getU / getX 1e-8, returned matrices 1e-7, closed-form latent correlation vs rhoZ 2e-6. Marginal families of the executable model: normal, lognormal (closed forms, theorems outright) and exponential, uniform, Gumbel, Weibull (constructor Marg.general: composed maps built by the driver from a double-precision Phi / Phi^-1 validated against scipy on every run; at the reals constrained by Marg.Valid).'),
    'C12': dict(technique=' + an EXECUTABLE model of the curvature extraction (Model/SormPipe.lean) compared with mainCurvaturesAtDesignPoint through the eigenvalues of its block + the three closing formulas REGENERATED from the numpy vector expressions of the source on every run (harness/translate_vec.py) and proved equal to the model for every scalar type',
                text=' breitungPf_eq / tvedtPf_eq / hrackPf_eq: the definitions regenerated from the source text are the model definitions the theorems are about (for every scalar instance, so also for the Float instance evaluated against the implementation).',
                note=' Translation validation of the regenerated formulas at Float against breitungSORM / tvedtSORM / hrackSORM (1e-11, Tvedt 1e-9). The curvature-extraction model (gradient pull-back, alignment vector, argmax column, Gram-Schmidt, U-space Hessian with the curvature of the marginal maps, conjugation) is compared with the implementation on random normal / lognormal problems at 2e-5; theorems C12p_block_flat (flat limit surface => all entries 0, so SORM = FORM end to end on the model), C12p_block_symm and C12p_paraboloid_entry (paraboloid in standard normal space: the curvature matrix is R diag(kappa) R^T with R R^T = 1 for any orthonormal rows orthogonal to the design direction), C12r_rows (the rows the model builds - argmax column, coincidence test, Gram-Schmidt loops - are orthonormal and orthogonal to the design direction whenever the U-space gradient is non-zero), C12p_paraboloid_model (the two combined: for a paraboloid in standard normal space the curvature matrix the model computes with its own rows is R diag(kappa) R^T with R R^T = 1).'),
    'C13': dict(technique=' + the returned pf as a function of the level list (Subset.pf) with the product theorem',
                text=' run_shape / C13_pf_product / C13_pf_le_one: every level before the last stored p0 with a positive threshold; when the last level reached the zero threshold with k of N samples in the failure set the returned pf is p0^(m-1) k / N, hence in [0, 1]. chain_contract / C13_nested_from_sampler: the contract assumed by the nestedness theorem is derived from the component-wise sampler model of C14 iterated with the domain function of subsetSimulation (a move to a different point is kept iff g < level), so nestedness holds end to end on the two models.',
                note=' The returned pf is compared with the model product (p0 as the exact binary fraction) at 1e-12.'),
    'C14': dict(technique=' + detailed balance in integral form on sigma-finite state spaces (Mathlib measure theory) + the Lebesgue measure of the accepting draws of the rule (Proofs/C14Uniform.lean)',
                text=' C14c_detailed_balance: for the move part of the kernel of the plain sampler on any sigma-finite state space, with a symmetric proposal density and a target positive on the domain, the probability flow from A to B equals the flow from B to A for all sets A, B. C14u_accept_probability / C14u_weight_from_rule: for a draw uniform on [0, 1) the set of draws on which the rule u f(cur) <= f(cand) accepts has Lebesgue measure min(1, f(cand)/f(cur)), so the off-diagonal kernel entries of the balance theorems are the proposal probability times the measure of the accepting draws times the domain test; the rule of the executable model on a rational draw is that inequality (C14u_accepts_iff); the draws accepting a zero-density candidate are {0}, of measure zero.',
                note=''),
    'C17': dict(technique=' + the Welch estimate as a mathematical object (segments, mean removal, window, density scaling, averaging) with its scaling / rate-invariance / non-negativity theorems',
                text=' C17w_scaling / C17w_scaling_area / C17w_area_fs_invariance / C17w_nonneg: the Welch estimate (averaged windowed one-sided density of mean-removed segments) scales with the square of the amplitude at every bin, keeps its area when only the sampling rate changes, and is non-negative; with one segment and a rectangular window it is the periodogram density.',
                note=' The Welch object of the theorems is written out in numpy and compared with what welchSpectrum returns (1e-9) on every tested series.'),
    'C20': dict(technique=' + an EXECUTABLE model of gramSchmidOrth (coincidence test, column re-arrangement, the two loops; Model/Gram.lean) proved to be the abstract two-loop Gram-Schmidt in Euclidean space and compared with the implementation column by column',
                text=' C20m_mgs_toE / C20m_orthonormal / C20m_first: the executable loops are the abstract loops under the embedding into EuclideanSpace; on linearly independent columns the output columns satisfy dot B_i B_j = delta_ij and the first is the normalised first column handed to the loops.',
                note=' The executable model is compared with gramSchmidOrth at 1e-9 on integer matrices (default alignment, generic vector, exact positive / negative multiples of a column, vectors near a column). C20d_derivative_exact: the executable model of derivative() with ANY regenerated weight table returns the exact n-th derivative of every polynomial of degree below the stencil size (tables -> real moment conditions -> polynomial exactness, end to end); compared with utils.derivative on polynomials at decimal and dyadic steps; C20d_partial_exact the same for gradient along a coordinate; the gradient / hessianMatrix models (stencil along one coordinate, gradient of the gradient) are compared with the implementation on quadratics at stencil sizes 3-9.'),
}


def fix_commits():
    import subprocess
    try:
        out = subprocess.run(['git', '-C', '/repo', 'log', '--format=%h %s'], stdout=subprocess.PIPE, text=True).stdout
        return [l.split()[0] for l in out.split('\n') if ' fix:' in l][::-1]
    except Exception:
        return []


FIXES = fix_commits()


def main():
    props = [json.loads(l) for l in open(os.path.join(VERIF, 'properties.jsonl'))]
    checks = []
    na = []
    for p in props:
        pid = p['id']
        if pid in CHECKS:
            c = dict(CHECKS[pid])
            for k, v in ADD.get(pid, {}).items():
                c[k] = c[k] + v
            checks.append({
                'property_id': pid,
                'quick_cmd': f'./check {pid} --tier quick',
                'thorough_cmd': f'./check {pid} --tier thorough',
                'evidence_file': f'/verif/evidence/{pid}.json',
                'replay_cmd_template': f'./check {pid} --replay {{path}}',
                'engine': c['engine'],
                'level_claimed': {'category': 'proof', 'text': c['text'], 'design_ref': c['ref']},
                'level_note': c['note'],
                'technique': c['technique'],
            })
        else:
            na.append({'property_id': pid, 'reason': NOT_YET.get(pid, 'check not built yet in this round (work in progress; see DESIGN.md §8 order of work)')})
    m = {
        'version': 1,
        'setup_cmd': 'cd lean/FFVerif && lake build',
        'hooks': {'guard': 'FFPACK_VERIF', 'enable': 'no hook in ffpack is needed: all observation points are public return values or numpy.random wrapped from outside; checks import /repo/src in-process',
                  'baseline_off_cmd': BASE, 'source_commits': [], 'add_only': True},
        'engines': [
            {'name': 'list', 'path': 'harness/cyc.py + lean/FFVerif/FFVerif/Model/{Cycle,Level,Signal,Matrix}.lean', 'serves_properties': ['C01', 'C02', 'C03', 'C04', 'C05', 'C06', 'C07', 'C19'], 'kind_free_text': 'hand-written Lean models of the list algorithms, exact correspondence on the dyadic grid'},
            {'name': 'formula', 'path': 'harness/translate.py + harness/gen.py + lean/FFVerif/FFVerif/Gen/*.lean', 'serves_properties': ['C08', 'C09', 'C12', 'C18', 'C20'], 'kind_free_text': 'Python-AST to Lean translator (generic scalar), translation validation at Float, theorems at the reals'},
            {'name': 'oracle-stream', 'path': 'lean/FFVerif/FFVerif/Model/{Arma,Sampler,Subset}.lean', 'serves_properties': ['C13', 'C14', 'C16'], 'kind_free_text': 'models with the randomness as a parameter; scripted / observed oracle streams, trace validation'},
            {'name': 'state-machine', 'path': 'lean/FFVerif/FFVerif/Model/Seed.lean', 'serves_properties': ['C15'], 'kind_free_text': 'seeding contract as a state machine, protocol conformance + replay'},
            {'name': 'executable-numeric-models', 'path': 'harness/formmodel.py + lean/FFVerif/FFVerif/Model/{Linalg,Chol,Nataf,Form,Gram}.lean + harness/translate_vec.py', 'serves_properties': ['C08', 'C10', 'C11', 'C12', 'C20'], 'kind_free_text': 'executable generic-scalar models of the Nataf map, Cholesky / triangular inverse, the HL-RF loop, Gram-Schmidt, evaluated at Float against the implementation and proved about at the reals; vector-expression translator for the closing formulas'},
            {'name': 'real-analysis', 'path': 'lean/FFVerif/FFVerif/Proofs/{C10,C11,C17}.lean', 'serves_properties': ['C10', 'C11', 'C17'], 'kind_free_text': 'Mathlib theorems about the exact methods, tolerance tie to the implementation'},
        ],
        'checks': checks,
        'notes': 'Technique family: machine-checked proof in Lean 4 (see DESIGN.md). VERIF_SEED seeds the single PRNG; VERIF_REPO (default /repo) is for self-tests only. No guarded hook commit exists (hooks.source_commits is empty). Unguarded fix: commits made in /repo, each recorded in known_findings.json: ' + ' '.join(FIXES) + '.',
        'not_applicable': na,
    }
    json.dump(m, open(os.path.join(VERIF, 'MANIFEST.json'), 'w'), indent=1)


if __name__ == '__main__':
    main()
