"""C10 — FORM returns the true design point and is exact for linear-Gaussian problems (DESIGN §5 C10)"""
import json
import math
import os
import random
import core
import formmodel
from props.c11 import random_corr

PID = 'C10'
MODULES = ['FFVerif.Proofs.C10', 'FFVerif.Proofs.C10Loop', 'FFVerif.Proofs.C10Newton', 'FFVerif.Proofs.C10Conv', 'FFVerif.Proofs.C10ScaleFosm', 'FFVerif.Proofs.C10NumGrad', 'FFVerif.Proofs.C11Chol', 'FFVerif.Proofs.VecGen']


def fail(res, clause, case, out, sig=None):
    res.failures.append({'signature': sig or 'C10:' + clause + ':' + json.dumps(case, default=str), 'clause': clause, 'input': case,
                         'impl_output': out})


def explore(res, rng, n):
    core.import_impl()
    import numpy as np
    from scipy import stats
    from ffpack import rrm, rpm
    for i in range(n):
        d = rng.choice([1, 2, 2, 3, 4, 5]) if i >= 2 else 3 + i
        mus = [float(rng.randint(-3, 6)) for _ in range(d)]
        sig = [float(rng.choice([1, 2, 3])) * rng.choice([1.0, 0.5]) for _ in range(d)]
        c = [float(rng.choice([-3, -2, -1, 1, 2, 3])) for _ in range(d)]
        R = random_corr(rng, d) if (d > 1 and rng.random() < 0.7) else np.eye(d)
        if i < 2 and d >= 3:
            # corpus: sparse correlation, a zero entry before a non-zero one in the first row; off-diagonal entries that cancel
            R = np.eye(d); R[0, 2] = R[2, 0] = 0.5; R[1, 2] = R[2, 1] = 0.3
            if i == 1:
                R = np.eye(d); R[0, 1] = R[1, 0] = 0.5; R[0, 2] = R[2, 0] = -0.5
                sig = [1.0, 2.0, 0.5, 1.0][:d] + [1.0] * (d - 4)          # (so that the cross terms do not cancel in Var[g])
                c = [1.0, 2.0, 3.0, -1.0][:d] + [1.0] * (d - 4)
        res.stat('corr_identity' if np.allclose(R, np.eye(d)) else ('corr_sparse' if np.any(np.array(R) == 0) else 'corr_dense'))
        Sigma = np.diag(sig) @ R @ np.diag(sig)
        sd = math.sqrt(float(np.array(c) @ Sigma @ np.array(c)))
        target_beta = rng.choice([-1.5, 0.7, 1.5, 2.5, 3.5, 5.0, 5.5, -5.0])   # beyond ~6 (noise), ~8 (saturation) the ppf(cdf(z)) route of the transformation saturates (upper tail), see DESIGN 7
        dconst = target_beta * sd - float(np.dot(c, mus))
        dconst = round(dconst, 2)
        exact = (float(np.dot(c, mus)) + dconst) / sd
        g = lambda X: float(np.dot(c, X)) + dconst
        dg = [(lambda X, k=k: c[k]) for k in range(d)]
        dists = [stats.norm(m, s) for m, s in zip(mus, sig)]
        case = {'mus': mus, 'sigmas': sig, 'c': c, 'd': dconst, 'corr': np.array(R).tolist(), 'exact_beta': exact}
        res.evaluations += 1
        res.nontrivial.add(json.dumps(case))
        res.stat('dim_%d' % d)
        res.stat('beta_negative' if exact < 0 else 'beta_positive')
        if i < 2:
            res.samples.append(case)
        outs = {}
        try:
            outs['hlrf'] = rrm.hlrfFORM(d, g, dg, dists, R.tolist())
            outs['hlrf_numgrad'] = rrm.hlrfFORM(d, g, None, dists, R.tolist())
            outs['hlrf_numgrad_dx0.1'] = rrm.hlrfFORM(d, g, None, dists, R.tolist(), dx=0.1)      # central differences of a linear g are exact for any step
            outs['hlrf_7g'] = rrm.hlrfFORM(d, lambda X: 7 * g(X), [(lambda X, k=k: 7 * c[k]) for k in range(d)], dists, R.tolist())
            outs['copt'] = rrm.coptFORM(d, g, dists, R.tolist())
            # non-default iteration controls: on a linear-Gaussian problem one HL-RF step is already exact
            outs['hlrf_iter1'] = rrm.hlrfFORM(d, g, dg, dists, R.tolist(), iter=1)
            outs['hlrf_loose_tol'] = rrm.hlrfFORM(d, g, dg, dists, R.tolist(), tol=1e-1)
        except Exception as e:  # noqa
            fail(res, 'FORM raised on a linear-Gaussian problem', case, repr(e)[:200])
            continue
        for nm, (beta, pf, u, x) in outs.items():
            tol = 1e-5 if nm != 'copt' else 2e-4
            if nm.startswith('hlrf_numgrad') and abs(beta - outs['hlrf'][0]) > 1e-8 * (1 + abs(exact)):
                fail(res, f'{nm}: beta changes when the analytic gradient is replaced by the built-in numerical one', case, {'numerical': beta, 'analytic': outs['hlrf'][0]})
            if abs(beta - exact) > tol * (1 + abs(exact)):
                fail(res, f'{nm}: beta differs from E[g]/sd[g] on a linear-Gaussian problem', case, {'beta': beta, 'exact': exact},
                     sig=('C10:coptFORM-unsigned-beta' if nm == 'copt' and abs(beta + exact) <= tol * (1 + abs(exact)) and exact < 0 else None))
            if abs(g(x)) > 1e-5 * (1 + sd):
                fail(res, f'{nm}: design point not on the limit state', case, {'g(x*)': g(x)})
            if abs(abs(beta) - float(np.linalg.norm(u))) > tol * (1 + abs(beta)):
                fail(res, f'{nm}: |beta| != |u*|', case, {'beta': beta, 'norm_u': float(np.linalg.norm(u))})
            if abs(pf - stats.norm.cdf(-beta)) > 1e-12 * stats.norm.cdf(-beta) + 1e-300:
                fail(res, f'{nm}: pf != Phi(-beta)', case, [pf, float(stats.norm.cdf(-beta))])
            if nm != 'hlrf':
                natk = rpm.NatafTransformation(dists, R.tolist())
                if not np.allclose(natk.getX(u)[0], x, rtol=1e-9, atol=1e-9):
                    fail(res, f'{nm}: x* is not the Nataf image of u*', case, {'x': np.array(x).tolist(), 'T(u)': natk.getX(u)[0].tolist()})
        if np.allclose(R, np.eye(d)):
            bf, pff = rrm.mvalFOSM(d, g, dg, mus, sig)
            bn, _ = rrm.mvalFOSM(d, g, None, mus, sig)
            mus_arr = np.array(mus, dtype=float)
            bn2, _ = rrm.mvalFOSM(d, g, None, mus_arr, np.array(sig), dx=0.1)
            bn3, _ = rrm.mvalFOSM(d, g, None, np.array([int(m) for m in mus]), sig)
            if mus_arr.tolist() != list(mus) or abs(bn2 - exact) > 1e-8 * (1 + abs(exact)) or abs(bn3 - exact) > 1e-5 * (1 + abs(exact)):
                fail(res, 'mvalFOSM with the means given as a numpy array (float: must not be modified; integer: same result)', case, [bn2, bn3, exact, mus_arr.tolist()])
            if abs(bf - exact) > 1e-9 * (1 + abs(exact)) or abs(bn - exact) > 1e-5 * (1 + abs(exact)):
                fail(res, 'mvalFOSM differs from the exact beta for independent normal variables', case, [bf, bn, exact])
        # x* is the Nataf image of u*
        from ffpack import rpm
        nat = rpm.NatafTransformation(dists, R.tolist())
        beta, pf, u, x = outs['hlrf']
        if not np.allclose(nat.getX(u)[0], x, rtol=1e-9, atol=1e-9):
            fail(res, 'x* is not the Nataf image of u*', case, None)
    # ---- nonlinear limit states: whenever a method returns, g(x*) = 0, x* = T(u*), |beta| = |u*|, pf = Phi(-beta), and the two
    # algorithms agree when both return (a ValueError for non-convergence is an admissible outcome)
    nl = [('parabola-two-cycle', 2, lambda X: 3.0 - X[0] + X[1] ** 2 / 2, [lambda X: -1.0, lambda X: X[1]], [stats.norm(), stats.norm()], np.eye(2)),
          ('parabola-convex', 2, lambda X: 3.0 - X[0] - 0.1 * X[1] ** 2, [lambda X: -1.0, lambda X: -0.2 * X[1]], [stats.norm(), stats.norm()], np.eye(2)),
          ('product-lognormal', 2, lambda X: X[0] * X[1] - 0.3, [lambda X: X[1], lambda X: X[0]], [stats.lognorm(0.5), stats.lognorm(0.3)],
           np.array([[1.0, 0.4], [0.4, 1.0]])),
          ('product-plus-4', 2, lambda X: X[0] * X[1] + 4.0, [lambda X: X[1], lambda X: X[0]], [stats.norm(), stats.norm()], np.eye(2)),
          ('product-plus-1', 2, lambda X: X[0] * X[1] + 1.0, [lambda X: X[1], lambda X: X[0]], [stats.norm(), stats.norm()], np.eye(2)),
          ('shifted-square', 1, lambda X: 4.0 - (X[0] - 1.0) ** 2, [lambda X: -2.0 * (X[0] - 1.0)], [stats.norm()], np.eye(1)),
          ('cubic', 2, lambda X: 2.5 - X[0] + 0.05 * X[1] ** 3, [lambda X: -1.0, lambda X: 0.15 * X[1] ** 2], [stats.norm(), stats.norm(0, 1)], np.eye(2)),
          ('sum-gumbel-expon', 2, lambda X: 12.0 - X[0] - X[1], [lambda X: -1.0, lambda X: -1.0], [stats.gumbel_r(1.0, 1.0), stats.expon(scale=1.5)],
           np.array([[1.0, -0.3], [-0.3, 1.0]]))]
    for nm, d, g, dg, dists, R in nl:
        case = {'problem': nm}
        res.evaluations += 1
        res.stat('nonlinear_' + nm)
        got = {}
        for meth, call in (('hlrf', lambda: rrm.hlrfFORM(d, g, dg, dists, R.tolist())), ('hlrf_numgrad', lambda: rrm.hlrfFORM(d, g, None, dists, R.tolist())),
                           ('copt', lambda: rrm.coptFORM(d, g, dists, R.tolist()))):
            try:
                got[meth] = call()
            except ValueError:
                res.stat('nonlinear_not_converged')
                continue
            beta, pf, u, x = got[meth]
            natn = rpm.NatafTransformation(dists, R.tolist())
            if not (abs(g(x)) <= 1e-4):
                fail(res, f'{meth}: returned design point is not on the limit state', case, {'g(x*)': float(g(x)), 'beta': float(beta)})
            if not np.allclose(natn.getX(u)[0], x, rtol=1e-8, atol=1e-8):
                fail(res, f'{meth}: x* is not the Nataf image of u*', case, None)
            if not (abs(abs(beta) - float(np.linalg.norm(u))) <= 1e-6 and abs(pf - stats.norm.cdf(-beta)) <= 1e-12):
                fail(res, f'{meth}: |beta| != |u*| or pf != Phi(-beta)', case, [float(beta), float(np.linalg.norm(u)), float(pf)])
        if 'hlrf' in got and 'copt' in got and abs(got['hlrf'][0] - got['copt'][0]) > 2e-3:
            fail(res, 'the two FORM algorithms disagree', case, [float(got['hlrf'][0]), float(got['copt'][0])])
    # ---- one variable, any marginal: pf = F(c)
    fams = [stats.norm(1, 2), stats.lognorm(0.5), stats.lognorm(1.0), stats.expon(scale=2.0), stats.gamma(3.0), stats.gamma(0.8), stats.uniform(0, 4),
            stats.weibull_min(2.0, scale=2.0), stats.weibull_min(0.7), stats.gumbel_r(1.0, 2.0), stats.gumbel_l(0.0, 1.0)]
    for ds in fams:
        # thresholds in both tails, on both sides of the median, and between the median and the mean of skewed marginals
        qm = float(ds.cdf(ds.mean()))
        for q in (0.01, 0.2, 0.7, 0.47, 0.53, (0.5 + qm) / 2 if abs(qm - 0.5) > 0.01 else 0.9, rng.uniform(0.03, 0.97)):
            cth = float(ds.ppf(q))
            g1 = lambda X, cth=cth: X[0] - cth
            res.evaluations += 1
            case = {'marginal': ds.dist.name, 'args': ds.args, 'kwds': ds.kwds, 'c': cth}
            try:
                b, pf, u, x = rrm.hlrfFORM(1, g1, [lambda X: 1.0], [ds], [[1.0]])
                b2, pf2, _, _ = rrm.coptFORM(1, g1, [ds], [[1.0]])
            except Exception as e:  # noqa
                fail(res, 'FORM raised on a one-variable problem', case, repr(e)[:200])
                continue
            if abs(pf - q) > 1e-6:
                fail(res, 'one variable: hlrfFORM pf != F(c)', case, [pf, q])
            if abs(pf2 - q) > 1e-4:
                fail(res, 'one variable: coptFORM pf != F(c)', case, [pf2, q],
                     sig=('C10:coptFORM-unsigned-beta' if abs((1 - pf2) - q) <= 1e-4 else None))


def config_runs(res, rng):
    """the global configuration (digits for aggregated ranges, tolerances) has nothing to do with reliability: with globalConfig.atol /
    rtol changed, FORM on a linear-Gaussian problem whose correlation needs four decimals still returns the exact index"""
    core.import_impl()
    import numpy as np
    from scipy import stats
    from ffpack import rrm
    from ffpack.config import globalConfig
    for rho, digits in ((0.3849, 2), (-0.2751, 1), (0.6123, 3)):
        c = [1.0, -2.0]
        mus, sig = [4.0, 1.0], [1.0, 0.5]
        R = [[1.0, rho], [rho, 1.0]]
        var = (c[0] * sig[0]) ** 2 + (c[1] * sig[1]) ** 2 + 2 * rho * c[0] * sig[0] * c[1] * sig[1]
        exact = (c[0] * mus[0] + c[1] * mus[1]) / math.sqrt(var)
        g = lambda X: c[0] * X[0] + c[1] * X[1]
        dg = [lambda X: c[0], lambda X: c[1]]
        dists = [stats.norm(m, s_) for m, s_ in zip(mus, sig)]
        old = (globalConfig.atol, globalConfig.rtol)
        res.evaluations += 1
        res.stat('form_under_changed_global_config')
        case = {'c': c, 'mus': mus, 'sigmas': sig, 'rho': rho, 'globalConfig.atol': digits, 'exact_beta': exact}
        try:
            globalConfig.atol, globalConfig.rtol = digits, digits
            outs = {'hlrf': rrm.hlrfFORM(2, g, dg, dists, R)[0], 'copt': rrm.coptFORM(2, g, dists, R)[0]}
        except Exception as e:  # noqa
            fail(res, 'FORM raised on a linear-Gaussian problem after globalConfig.atol / rtol were changed', case, repr(e)[:200])
            continue
        finally:
            globalConfig.atol, globalConfig.rtol = old
        for nm, b in outs.items():
            if abs(b - exact) > (1e-6 if nm == 'hlrf' else 2e-4) * (1 + abs(exact)):
                fail(res, f'{nm}: beta differs from E[g]/sd[g] after globalConfig.atol / rtol were changed', case, {'beta': float(b), 'exact': exact})


def quadrature_history(res, rng):
    """the documented parameters quadDeg / quadRange belong to ONE call: FORM calls with other quadrature settings (on an unrelated problem)
    must not change what a later default call returns — the exact index of a correlated linear-Gaussian problem"""
    core.import_impl()
    from scipy import stats
    from ffpack import rrm
    other = [stats.norm(0.0, 1.0), stats.lognorm(0.3, scale=2.0)]
    og = lambda X: 5.0 - X[0] - X[1]
    odg = [lambda X: -1.0, lambda X: -1.0]
    # the later call uses the SAME degree with the default range 8 (a degree not used before in this process is the sharper case: whatever
    # was set up for the first call would be found again)
    for rho, (deg, ran) in ((0.6, (99, 4)), (-0.45, (64, 2.5)), (0.3, (80, 3)), (0.75, (50, 2.5))):
        c = [1.0, -2.0]
        mus, sig = [4.0, 1.0], [1.0, 0.5]
        R = [[1.0, rho], [rho, 1.0]]
        var = (c[0] * sig[0]) ** 2 + (c[1] * sig[1]) ** 2 + 2 * rho * c[0] * sig[0] * c[1] * sig[1]
        exact = (c[0] * mus[0] + c[1] * mus[1]) / math.sqrt(var)
        g = lambda X: c[0] * X[0] + c[1] * X[1]
        dg = [lambda X: c[0], lambda X: c[1]]
        dists = [stats.norm(m, s_) for m, s_ in zip(mus, sig)]
        case = {'c': c, 'mus': mus, 'sigmas': sig, 'rho': rho, 'earlier_call': {'quadDeg': deg, 'quadRange': ran}, 'exact_beta': exact}
        res.evaluations += 1
        res.stat('form_after_other_quadrature_settings')
        try:
            rrm.hlrfFORM(2, og, odg, other, [[1.0, 0.4], [0.4, 1.0]], quadDeg=deg, quadRange=ran)
            rrm.coptFORM(2, og, other, [[1.0, 0.4], [0.4, 1.0]], quadDeg=deg, quadRange=ran)
            outs = {'hlrf': rrm.hlrfFORM(2, g, dg, dists, R, quadDeg=deg, quadRange=8)[0], 'copt': rrm.coptFORM(2, g, dists, R, quadDeg=deg, quadRange=8)[0]}
        except Exception as e:  # noqa
            fail(res, 'FORM raised on a linear-Gaussian problem after calls with other quadrature settings', case, repr(e)[:200])
            continue
        for nm, b in outs.items():
            if abs(b - exact) > (1e-6 if nm == 'hlrf' else 2e-5) * (1 + abs(exact)):
                fail(res, f'{nm}: beta differs from E[g]/sd[g] after earlier calls with other quadDeg / quadRange', case, {'beta': float(b), 'exact': exact})


def scale_and_reach(res, rng):
    """(1) the index does not depend on the unit of g: the same linear-Gaussian problem with g (and its gradient) multiplied by 2^-44 … 2^-70
    (values of 1e-13 … 1e-21) must give the beta of the unscaled problem in mvalFOSM, hlrfFORM and coptFORM (theorems C10m_scale_*);
    (2) a design point further out than the quadrature half-width: beta = 6.64 with quadRange = 6 (the quadrature range belongs to the latent
    correlation, not to the search for the design point)"""
    core.import_impl()
    from scipy import stats
    from ffpack import rrm
    for k2 in (-44, -50, -60, -70):
        sc = 2.0 ** k2
        c, c0 = [3.0, -2.0], 10.0
        exact = c0 / math.sqrt(c[0] ** 2 + c[1] ** 2)
        g = lambda X, sc=sc: sc * (c0 + c[0] * X[0] + c[1] * X[1])
        dg = [lambda X, sc=sc: sc * c[0], lambda X, sc=sc: sc * c[1]]
        dists = [stats.norm(0.0, 1.0), stats.norm(0.0, 1.0)]
        case = {'g': 'k * (10 + 3 x1 - 2 x2)', 'k': sc, 'marginals': 'two independent N(0, 1)', 'exact_beta': exact}
        res.evaluations += 1
        res.stat('form_limit_state_of_tiny_magnitude')
        outs = {}
        for nm, f in (('mvalFOSM', lambda: rrm.mvalFOSM(2, g, dg, [0.0, 0.0], [1.0, 1.0])[0]),
                      ('hlrfFORM', lambda: rrm.hlrfFORM(2, g, dg, dists, [[1.0, 0.0], [0.0, 1.0]])[0])):
            try:
                outs[nm] = float(f())
            except Exception as e:  # noqa
                fail(res, nm + ' raised on a linear-Gaussian problem whose limit state is given in a small unit', case, repr(e)[:160])
                continue
            if abs(outs[nm] - exact) > 1e-8 * (1 + abs(exact)):
                fail(res, nm + ': beta depends on the unit of the limit state (g multiplied by a small positive constant)', case, {'beta': outs[nm], 'exact': exact})
    for (c0, c, qr) in ((21.0, [3.0, 1.0], 6), (20.0, [2.0, 2.0, 1.0], 6), (13.0, [1.0, 1.0], 5)):
        d = len(c)
        exact = c0 / math.sqrt(sum(v * v for v in c))
        g = lambda X, c0=c0, c=c: c0 + sum(ci * xi for ci, xi in zip(c, X))
        dg = [(lambda X, ci=ci: ci) for ci in c]
        dists = [stats.norm(0.0, 1.0) for _ in c]
        R = [[1.0 if i == j else 0.0 for j in range(d)] for i in range(d)]
        case = {'g': f'{c0} + {c} . x', 'marginals': 'independent N(0, 1)', 'quadRange': qr, 'exact_beta': exact}
        res.evaluations += 1
        res.stat('form_design_point_beyond_quadRange')
        try:
            bh = float(rrm.hlrfFORM(d, g, dg, dists, R, quadRange=qr)[0])
            bc = float(rrm.coptFORM(d, g, dists, R, quadRange=qr)[0])
        except Exception as e:  # noqa
            fail(res, 'FORM raised on a linear-Gaussian problem with a design point beyond quadRange', case, repr(e)[:160])
            continue
        if abs(bh - exact) > 1e-6 * exact or abs(bc - exact) > 2e-3 * exact:
            fail(res, 'beta is not E[g]/sd[g] when the design point lies beyond quadRange', case, {'hlrf': bh, 'copt': bc, 'exact': exact})


def recorded_limits(res):
    """two recorded limitations: (a) the Nataf quadrature at |rho| >= 0.98 makes FORM inexact on linear-Gaussian problems;
    (b) the numerical gradient uses an absolute step 1e-6, below the float spacing of Pa-sized variables"""
    core.import_impl()
    import numpy as np
    from scipy import stats
    from ffpack import rrm
    rho = 0.99
    g = lambda X: 0.5 + X[0] - X[1]
    exact = 0.5 / math.sqrt(2 - 2 * rho)
    res.evaluations += 1
    try:
        b = rrm.hlrfFORM(2, g, [lambda X: 1.0, lambda X: -1.0], [stats.norm(), stats.norm()], [[1.0, rho], [rho, 1.0]])[0]
    except Exception as e:  # noqa
        fail(res, 'FORM raised on a linear-Gaussian problem', {'g': '0.5 + x1 - x2', 'corr': rho, 'exact_beta': exact}, repr(e)[:200])
        b = exact
    if abs(b - exact) > 1e-5 * (1 + exact):
        fail(res, 'hlrf: beta differs from E[g]/sd[g] on a linear-Gaussian problem', {'g': '0.5 + x1 - x2', 'corr': rho, 'exact_beta': exact}, float(b),
             sig='C10:nataf-quadrature:abs-rho-above-0.98')
    s_ = 1e8
    gl = lambda X: X[0] - X[1]
    mus, sig = [3 * s_, 2 * s_], [0.3 * s_, 0.2 * s_]
    exact2 = 1.0 / math.sqrt(0.13)
    res.evaluations += 1
    try:
        bn = rrm.mvalFOSM(2, gl, None, mus, sig)[0]
    except Exception as e:  # noqa
        fail(res, 'mvalFOSM raised on a valid problem', {'g': 'R - S', 'mus': mus, 'sigmas': sig}, repr(e)[:200])
        bn = exact2
    if abs(bn - exact2) > 1e-5 * (1 + exact2):
        fail(res, 'mvalFOSM differs from the exact beta for independent normal variables (numerical gradient)', {'g': 'R - S', 'mus': mus, 'sigmas': sig, 'exact_beta': exact2},
             float(bn), sig='C10:absolute-step-numerical-gradient:magnitude-1e8')


def run(tier, seed):
    res = core.Result(PID, tier, seed)
    res.rule = ('random linear limit states of jointly normal variables: dimension 1-5, integer coefficients, random positive-definite '
                'correlation, target beta in {-1.5 .. 3.5} (origin in the failure set included); one-variable problems (thresholds in both tails, around the median, between median and mean) over eleven marginal '
                'families; distinct by problem')
    import translate_vec
    translate_vec.regenerate(res)      # Gen/VecFormulas.lean from the current source (numpy vector expressions)
    core.prove(res, PID, MODULES, clean=(tier == 'thorough'))
    n = 12 if tier == 'quick' else 300
    explore(res, random.Random(seed), n)
    recorded_limits(res)
    config_runs(res, random.Random(seed + 3))
    quadrature_history(res, random.Random(seed + 5))
    scale_and_reach(res, random.Random(seed + 6))
    res.traces = res.evaluations
    # executable Lean model of the HL-RF loop / mvalFOSM (Model/Form.lean) against the implementation, iterate by iterate
    formmodel.form_stream(res, random.Random(seed + 7), 40 if tier == 'quick' else 1500)
    res.disagreements_checked = res.evaluations
    res.trusted += ['Proofs/C10.lean: theorems about the exact HL-RF step / linear algebra over an abstract inner-product space, tied to the implementation by '
                    'tolerance checks of their consequences (1e-5, coptFORM 2e-4)',
                    'Proofs/C10Loop.lean: theorems about the executable model of the hlrfFORM loop and of mvalFOSM (Model/Form.lean, Model/Nataf.lean, '
                    'Model/Chol.lean); the model is tied to the implementation by running both on the same problems (normal / lognormal marginals, '
                    'linear and quadratic limit states, random tol / iter) and comparing outcome, number of iterations, every evaluation point of g, '
                    'beta, uCoord, xCoord at 1e-7 relative',
                    'convergence of the iteration on nonlinear limit states, SLSQP in coptFORM, the numerical gradient and scipy.stats are modelled, not verified']
    return core.finish(res)


def replay(path):
    d = json.load(open(path))
    f = d.get('failure')
    if not f:
        print('replay file names a broken obligation/tie, no input to replay:', json.dumps(d.get('no_longer_checks'))[:800])
        return 1
    print('recorded:', json.dumps(f, default=str)[:1500])
    return 1
