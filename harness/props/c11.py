"""C11 — Nataf transformation is a bijection with the prescribed marginals / correlation (DESIGN §5 C11)"""
import json
import math
import os
import random
import core

PID = 'C11'
MODULES = ['FFVerif.Proofs.C11', 'FFVerif.Proofs.C11Chol', 'FFVerif.Proofs.C11Model', 'FFVerif.Proofs.C11Law', 'FFVerif.Proofs.C11CholPD']


def fail(res, clause, case, out, sig=None):
    res.failures.append({'signature': sig or 'C11:' + clause + ':' + json.dumps(case, default=str), 'clause': clause, 'input': case,
                         'impl_output': out})


def scaled_cov_values(nat, dists, x):
    """what pdf / cdf return if the latent covariance is wrongly scaled by the marginal standard deviations"""
    import numpy as np
    from scipy import stats
    std = np.array([ds.std() for ds in dists])
    cov = np.diag(std) @ nat.rhoZ @ np.diag(std)
    mv = stats.multivariate_normal(mean=np.zeros(len(dists)), cov=cov)
    z = np.array([stats.norm.ppf(ds.cdf(v)) for ds, v in zip(dists, x)])
    phi = np.prod(stats.norm.pdf(z))
    return float(np.prod([ds.pdf(v) for ds, v in zip(dists, x)]) / phi * mv.pdf(z)), float(mv.cdf(z))


KNOWN_COV = 'C11:pdf-cdf-latent-covariance-scaled-by-marginal-std'


def frozen(rng, dist, shapes, loc=None, scale=None):
    """a frozen scipy distribution whose parameters are passed positionally, by keyword, or mixed (random choice):
    the transformation must depend on the distribution only, never on how it was written down"""
    names = [n.strip() for n in dist.shapes.split(',')] if dist.shapes else []
    style = rng.choice(['positional', 'keyword', 'mixed'])
    args, kw = [], {}
    for n, v in zip(names, shapes):
        if style == 'positional' or (style == 'mixed' and not kw and rng.random() < 0.5):
            args.append(v)
        else:
            kw[n] = v
    for n, v in (('loc', loc), ('scale', scale)):
        if v is None:
            continue
        if style == 'positional' and not kw and len(args) == len(names) + (0 if n == 'loc' else (1 if loc is not None else 99)):
            args.append(v)
        else:
            kw[n] = v
    return dist(*args, **kw)


def families(rng):
    from scipy import stats
    return [
        ('norm', lambda: frozen(rng, stats.norm, (), rng.choice([0.0, 1.0, -2.0]), rng.choice([1.0, 2.0, 0.5]))),
        ('lognorm', lambda: frozen(rng, stats.lognorm, (rng.choice([0.25, 0.5, 1.0]),), rng.choice([None, None, 10.0, -2.0]), rng.choice([1.0, 2.0]))),
        ('expon', lambda: frozen(rng, stats.expon, (), None, rng.choice([1.0, 2.0]))),
        ('gamma', lambda: frozen(rng, stats.gamma, (rng.choice([2.0, 3.5]),), None, rng.choice([1.0, 0.5]))),
        ('uniform', lambda: frozen(rng, stats.uniform, (), rng.choice([0.0, -1.0]), rng.choice([1.0, 3.0]))),
        ('weibull', lambda: frozen(rng, stats.weibull_min, (rng.choice([1.5, 2.0]),), None, 2.0)),
        ('gumbel', lambda: frozen(rng, stats.gumbel_r, (), 1.0, rng.choice([1.0, 2.0]))),
        ('beta', lambda: frozen(rng, stats.beta, (2.0, rng.choice([3.0, 5.0])))),
    ]


def shape_of(ds):
    """the first shape parameter of a frozen distribution however it was passed"""
    names = [n.strip() for n in ds.dist.shapes.split(',')] if ds.dist.shapes else []
    return ds.args[0] if ds.args else ds.kwds[names[0]]


def random_corr(rng, d):
    import numpy as np
    while True:
        A = np.array([[rng.uniform(-1, 1) for _ in range(d)] for _ in range(d)])
        C = A @ A.T + d * 0.8 * np.eye(d)
        s = np.sqrt(np.diag(C))
        R = C / np.outer(s, s)
        R = np.round(R, 2)
        R = (R + R.T) / 2
        if d >= 3 and rng.random() < 0.4:
            # sparse matrices: some pairs uncorrelated, in particular a zero entry before a non-zero one in a row
            for a in range(d):
                for b in range(a + 1, d):
                    if rng.random() < 0.45 or (a == 0 and b == 1):
                        R[a, b] = R[b, a] = 0.0
        np.fill_diagonal(R, 1.0)
        if np.all(np.linalg.eigvalsh(R) > 0.2):
            return R


def explore(res, rng, n):
    core.import_impl()
    import numpy as np
    from scipy import stats, integrate
    from ffpack import rpm
    fams = families(rng)
    for i in range(n):
        d = rng.choice([1, 2, 2, 3, 3, 4])
        picks = [rng.choice(fams) for _ in range(d)]
        if d >= 2 and rng.random() < 0.35:
            picks[1] = picks[0]           # two members of one family (differently parameterised more often than not)
            res.stat('same_family_pair')
        dists = [mk() for _, mk in picks]
        names = [nm for nm, _ in picks]
        R = random_corr(rng, d) if (d > 1 and rng.random() < 0.8) else np.eye(d)
        case = {'marginals': [(nm, ds.args, ds.kwds) for nm, ds in zip(names, dists)], 'corr': R.tolist()}
        res.evaluations += 1
        res.nontrivial.add(json.dumps(case, default=str))
        res.stat('dim_%d' % d)
        res.stat('identity_corr' if np.allclose(R, np.eye(d)) else ('correlated_sparse' if np.any(R == 0) else 'correlated_dense'))
        if i < 2:
            res.samples.append(case)
        try:
            nat = rpm.NatafTransformation(dists, R.tolist())
        except Exception as e:  # noqa
            fail(res, 'constructor raised for an admissible correlation matrix', case, repr(e)[:200],
                 sig='C11:constructor-raises:' + type(e).__name__)
            continue
        u = np.array([rng.uniform(-2, 2) for _ in range(d)])
        x, JX = nat.getX(u)
        u2, JU = nat.getU(x)
        x2, _ = nat.getX(u2)
        if not np.allclose(u2, u, rtol=1e-8, atol=1e-9) or not np.allclose(x2, x, rtol=1e-8, atol=1e-9):
            fail(res, 'round trip U->X->U / X->U->X', case, {'u': u.tolist(), 'u_back': np.array(u2).tolist()})
        if not np.allclose(JU @ JX, np.eye(d), atol=1e-8) or not np.allclose(JX @ JU, np.eye(d), atol=1e-8):
            fail(res, 'the two Jacobians are not inverses of each other', case, (JU @ JX).tolist())
        # lower tail (exact in binary64: cdf values down to 1e-20 are representable; the upper tail is not tested because
        # 1 - cdf saturates beyond ~8 sigma, a numerical limit of the cdf/ppf route and not of the transformation)
        ut = np.array([rng.uniform(-8.7, -5.0) if k == 0 else rng.uniform(-1, 1) for k in range(d)])
        p0_ = float(stats.norm.cdf(ut[0]))
        marg_ok = abs(float(dists[0].cdf(dists[0].ppf(p0_))) - p0_) <= 1e-9 * p0_     # the marginal itself resolves that tail probability
        if float(np.max(nat.L @ ut)) <= 3.5 and marg_ok:
            res.stat('lower_tail_round_trip')
            xt, _ = nat.getX(ut)
            ub, _ = nat.getU(xt)
            if not np.allclose(ub, ut, rtol=1e-6, atol=1e-6):
                fail(res, 'round trip U->X->U in the lower tail', case, {'u': ut.tolist(), 'u_back': np.array(ub).tolist()})
        # finite differences: the matrix returned by getU is d(getX)/dU, the one returned by getX is d(getU)/dX
        h = 1e-6
        fdX = np.column_stack([(nat.getX(u + h * e)[0] - nat.getX(u - h * e)[0]) / (2 * h) for e in np.eye(d)])
        fdU = np.column_stack([(nat.getU(x + h * e)[0] - nat.getU(x - h * e)[0]) / (2 * h) for e in np.eye(d)])
        if not np.allclose(fdX, JU, rtol=1e-4, atol=1e-6) or not np.allclose(fdU, JX, rtol=1e-4, atol=1e-6):
            fail(res, 'Jacobians do not match finite differences of the maps', case, {'fd_dXdU': fdX.tolist(), 'returned_by_getU': np.array(JU).tolist()})
        # integer-valued input must behave like the same floats
        ui = [int(v) for v in np.round(u)]
        xi, _ = nat.getX(ui)
        xf, _ = nat.getX([float(v) for v in ui])
        if not np.allclose(np.array(xi, dtype=float), xf, rtol=1e-12, atol=1e-12):
            fail(res, 'integer input is truncated', case, {'U': ui, 'int': np.array(xi).tolist(), 'float': np.array(xf).tolist()},
                 sig='C11:integer-input-truncated')
        # the same for a point of X space given as integers (getU, pdf, cdf): identical to the float point
        xi_ = [int(v) for v in np.round(x)]
        if all(0 < ds.cdf(v) < 1 for ds, v in zip(dists, xi_)):
            xf_ = [float(v) for v in xi_]
            res.stat('integer_valued_X_point')
            for nm_, fn_ in (('getU', lambda p: np.asarray(nat.getU(p)[0], dtype=float)), ('pdf', lambda p: float(nat.pdf(p))),
                             ('cdf', lambda p: float(nat.cdf(p)))):
                for label, pt in (('list of ints', xi_), ('int64 array', np.array(xi_, dtype=np.int64))):
                    a_, b_ = fn_(pt), fn_(xf_)
                    # (scipy integrates the multivariate normal cdf by randomised quasi-Monte-Carlo from dimension 3: 1e-4)
                    if not np.allclose(a_, b_, rtol=(1e-9 if nm_ != 'cdf' else 2e-3), atol=(1e-300 if nm_ != 'cdf' else 2e-5)):
                        fail(res, f'{nm_} of an integer-typed point ({label}) differs from the same point as floats', case,
                             {'X': xi_, 'int': np.asarray(a_).tolist(), 'float': np.asarray(b_).tolist()}, sig='C11:integer-input-truncated:' + nm_)
        # latent correlation: normal marginals -> prescribed; lognormal pair -> closed form
        for a in range(d):
            for b in range(a + 1, d):
                if names[a] == 'norm' and names[b] == 'norm' and abs(nat.rhoZ[a, b] - R[a, b]) > 1e-6:
                    fail(res, 'latent correlation differs from the prescribed one for normal marginals', case, [nat.rhoZ[a, b], R[a, b]])
                if names[a] == 'lognorm' and names[b] == 'lognorm':
                    s1, s2 = shape_of(dists[a]), shape_of(dists[b])
                    want = math.log(1 + R[a, b] * math.sqrt((math.exp(s1 * s1) - 1) * (math.exp(s2 * s2) - 1))) / (s1 * s2)
                    if abs(nat.rhoZ[a, b] - want) > 1e-5:
                        fail(res, 'latent correlation differs from the lognormal closed form', case, [nat.rhoZ[a, b], want])
        # correlation of the mapped variables (Gauss-Hermite in standard normal space)
        if d == 2 and not np.allclose(R, np.eye(2)):
            pts, wts = np.polynomial.hermite_e.hermegauss(40)
            wts = wts / math.sqrt(2 * math.pi)
            L = nat.L
            Ex = np.zeros(2); Exx = np.zeros(2); Exy = 0.0
            for p1, w1 in zip(pts, wts):
                for p2, w2 in zip(pts, wts):
                    z = L @ np.array([p1, p2])
                    xx = np.array([dists[k].ppf(stats.norm.cdf(z[k])) for k in range(2)])
                    Ex += w1 * w2 * xx; Exx += w1 * w2 * xx * xx; Exy += w1 * w2 * xx[0] * xx[1]
            cor = (Exy - Ex[0] * Ex[1]) / math.sqrt((Exx[0] - Ex[0] ** 2) * (Exx[1] - Ex[1] ** 2))
            if abs(cor - R[0, 1]) > 2e-3:
                fail(res, 'correlation of the mapped variables differs from the prescribed one', case, [cor, R[0, 1]])
        # pdf / cdf: factorisation at identity correlation; normalisation (1-D, 2-D)
        if np.allclose(R, np.eye(d)):
            pm = float(np.prod([ds.pdf(v) for ds, v in zip(dists, x)]))
            cm = float(np.prod([ds.cdf(v) for ds, v in zip(dists, x)]))
            wp, wc = scaled_cov_values(nat, dists, x)
            if not math.isclose(float(nat.pdf(x)), pm, rel_tol=1e-8, abs_tol=1e-12):
                fail(res, 'pdf does not factor into the marginals at identity correlation', case, [float(nat.pdf(x)), pm],
                     sig=KNOWN_COV if math.isclose(float(nat.pdf(x)), wp, rel_tol=1e-9) else None)
            if not math.isclose(float(nat.cdf(x)), cm, rel_tol=1e-6, abs_tol=1e-9):
                fail(res, 'cdf does not factor into the marginals at identity correlation', case, [float(nat.cdf(x)), cm],
                     sig=KNOWN_COV if math.isclose(float(nat.cdf(x)), wc, rel_tol=1e-6, abs_tol=1e-9) else None)
        if d == 1:
            lo, hi = dists[0].ppf(1e-10), dists[0].ppf(1 - 1e-10)
            tot, _ = integrate.quad(lambda t: float(nat.pdf([t])), lo, hi, limit=200)
            if abs(tot - 1) > 1e-5:
                xm = [dists[0].ppf(0.7)]
                fail(res, 'pdf does not integrate to one', case, tot,
                     sig=KNOWN_COV if math.isclose(float(nat.pdf(xm)), scaled_cov_values(nat, dists, xm)[0], rel_tol=1e-9) and abs(dists[0].std() - 1) > 1e-9 else None)
        if d == 2 and i % 4 == 0:
            # fixed Gauss-Legendre rule in the latent coordinates z (x_k = ppf_k(Phi(z_k)), dx_k = phi(z_k)/f_k(x_k) dz_k): the
            # integrand is smooth there whatever the marginals are, and the cost is bounded (2 x 40 x 40 pdf evaluations)
            nodes, wts = np.polynomial.legendre.leggauss(40)

            def integral(zhi):
                tot_ = 0.0
                for a_, wa in zip(nodes, wts):
                    za = -6.5 + (a_ + 1) * (zhi[0] + 6.5) / 2
                    xa = dists[0].ppf(stats.norm.cdf(za)); ja = stats.norm.pdf(za) / dists[0].pdf(xa)
                    for b_, wb in zip(nodes, wts):
                        zb = -6.5 + (b_ + 1) * (zhi[1] + 6.5) / 2
                        xb = dists[1].ppf(stats.norm.cdf(zb)); jb = stats.norm.pdf(zb) / dists[1].pdf(xb)
                        tot_ += wa * wb * float(nat.pdf([xa, xb])) * ja * jb
                return tot_ * (zhi[0] + 6.5) / 2 * (zhi[1] + 6.5) / 2
            tot = integral([6.5, 6.5])
            unit = all(abs(ds.std() - 1) < 1e-9 for ds in dists)
            xm = [ds.ppf(0.6) for ds in dists]
            scaled = (not unit) and math.isclose(float(nat.pdf(xm)), scaled_cov_values(nat, dists, xm)[0], rel_tol=1e-9)
            if abs(tot - 1) > 2e-3:
                fail(res, 'pdf does not integrate to one', case, tot, sig=KNOWN_COV if scaled else None)
            mid = [ds.ppf(0.6) for ds in dists]
            part = integral([float(stats.norm.ppf(0.6))] * 2)
            if abs(part - float(nat.cdf(mid))) > 2e-3:
                fail(res, 'cdf is not the integral of the pdf', case, [part, float(nat.cdf(mid))], sig=KNOWN_COV if scaled else None)


def same_family(res, rng):
    """two differently parameterised members of one family, written positionally and by keyword: the latent correlation
    is a function of the two distributions only, and is the closed form for a lognormal pair"""
    core.import_impl()
    import numpy as np
    from scipy import stats
    from ffpack import rpm
    table = [(stats.lognorm, 's', (0.25, 1.0)), (stats.lognorm, 's', (0.5, 0.75)), (stats.gamma, 'a', (1.5, 6.0)),
             (stats.weibull_min, 'c', (0.8, 3.0)), (stats.t, 'df', (5.0, 30.0)), (stats.chi2, 'df', (2.0, 9.0))]
    for dist, nm, (p1, p2) in table:
        rho = rng.choice([0.3, 0.6, -0.4])
        R = [[1.0, rho], [rho, 1.0]]
        case = {'family': dist.name, 'shapes': [p1, p2], 'corr': rho}
        res.evaluations += 1
        res.nontrivial.add(json.dumps(case))
        res.stat('same_family_keyword_vs_positional')
        try:
            zs = {}
            for style, mk in (('positional', lambda p: dist(p)), ('keyword', lambda p: dist(**{nm: p})),
                              ('mixed', lambda p: dist(p, scale=1.0) if p == p1 else dist(**{nm: p}))):
                zs[style] = float(rpm.NatafTransformation([mk(p1), mk(p2)], R).rhoZ[0, 1])
            zs['swapped'] = float(rpm.NatafTransformation([dist(**{nm: p2}), dist(**{nm: p1})], R).rhoZ[0, 1])
        except Exception as e:  # noqa
            fail(res, 'constructor raised for an admissible correlation matrix', case, repr(e)[:200])
            continue
        if max(zs.values()) - min(zs.values()) > 1e-9:
            fail(res, 'latent correlation depends on how the marginals are written down (positional / keyword / order)', case, zs)
        if dist is stats.lognorm:
            want = math.log(1 + rho * math.sqrt((math.exp(p1 * p1) - 1) * (math.exp(p2 * p2) - 1))) / (p1 * p2)
            if abs(zs['keyword'] - want) > 1e-5:
                fail(res, 'latent correlation differs from the lognormal closed form', case, [zs, want])


def sparse_corr(res):
    """uncorrelated pairs mixed with correlated ones: every prescribed entry must reach the latent matrix"""
    core.import_impl()
    import numpy as np
    from scipy import stats
    from ffpack import rpm
    # (the third matrix has a row whose entries cancel, the fourth six different entries in dimension 4)
    for R in ([[1, 0, .5], [0, 1, .3], [.5, .3, 1]], [[1, 0, 0, .4], [0, 1, .2, 0], [0, .2, 1, .3], [.4, 0, .3, 1]],
              [[1, .4, -.4], [.4, 1, .2], [-.4, .2, 1]],
              [[1, .1, .2, .3], [.1, 1, -.15, .25], [.2, -.15, 1, .05], [.3, .25, .05, 1]]):
        d = len(R)
        case = {'marginals': 'norm(k, 1 + k)', 'corr': R}
        res.evaluations += 1
        res.nontrivial.add(json.dumps(case))
        res.stat('sparse_corr_corpus')
        nat = rpm.NatafTransformation([stats.norm(k, 1.0 + k) for k in range(d)], R)
        if not np.allclose(nat.rhoZ, np.array(R, dtype=float), atol=1e-6):
            fail(res, 'latent correlation differs from the prescribed one for normal marginals', case, np.array(nat.rhoZ).tolist())
        # the Cholesky factor actually used by the maps reproduces the prescribed matrix
        if not np.allclose(nat.L @ nat.L.T, np.array(R, dtype=float), atol=1e-6):
            fail(res, 'L L^T differs from the prescribed correlation for normal marginals', case, (nat.L @ nat.L.T).tolist())


def pdf_tails(res):
    """unit-variance normal marginals at identity correlation (where the recorded covariance finding is invisible): the joint
    pdf is the product of the marginal densities however small that product is"""
    core.import_impl()
    import numpy as np
    from scipy import stats
    from ffpack import rpm
    for d, z in ((1, 6.5), (1, -7.0), (4, 3.5), (10, 1.5), (8, -2.0)):
        dists = [stats.norm(float(k), 1.0) for k in range(d)]
        x = [float(k) + z for k in range(d)]
        case = {'marginals': 'norm(k, 1), k < %d' % d, 'corr': 'identity', 'x': x}
        res.evaluations += 1
        res.nontrivial.add(json.dumps(case))
        res.stat('pdf_small_density')
        got = float(rpm.NatafTransformation(dists, np.eye(d).tolist()).pdf(x))
        want = float(np.prod([ds.pdf(v) for ds, v in zip(dists, x)]))
        if not math.isclose(got, want, rel_tol=1e-8):
            fail(res, 'pdf does not factor into the marginals at identity correlation (small densities)', case, [got, want])


def shifted_lognormal(res):
    """lognormal marginals with a location shift: the latent correlation depends on the shape parameters only"""
    core.import_impl()
    import numpy as np
    from scipy import stats
    from ffpack import rpm
    for (s1, l1, c1), (s2, l2, c2), rho in (((0.5, 10.0, 1.0), (0.5, 0.0, 1.0), 0.6), ((0.25, -2.0, 2.0), (1.0, 5.0, 1.0), 0.3),
                                            ((0.5, 10.0, 1.0), (0.75, 3.0, 0.5), -0.4),
                                            # strongly skewed pairs (coefficient of variation above 5)
                                            ((2.0, 0.0, 1.0), (2.0, 0.0, 1.0), 0.5), ((1.8, 0.0, 1.0), (1.8, 0.0, 2.0), 0.5), ((1.9, 0.0, 1.0), (1.9, 0.0, 1.0), 0.7)):
        case = {'marginals': [['lognorm', s1, 'loc', l1, 'scale', c1], ['lognorm', s2, 'loc', l2, 'scale', c2]], 'corr': rho}
        res.evaluations += 1
        res.nontrivial.add(json.dumps(case))
        res.stat('shifted_lognormal_pair')
        nat = rpm.NatafTransformation([stats.lognorm(s1, loc=l1, scale=c1), stats.lognorm(s2, loc=l2, scale=c2)], [[1.0, rho], [rho, 1.0]])
        want = math.log(1 + rho * math.sqrt((math.exp(s1 * s1) - 1) * (math.exp(s2 * s2) - 1))) / (s1 * s2)
        if abs(float(nat.rhoZ[0, 1]) - want) > 1e-5:
            fail(res, 'latent correlation differs from the lognormal closed form', case, [float(nat.rhoZ[0, 1]), want])


def boundary_and_sampling(res, rng):
    """(a) a point outside the support of one marginal has joint density 0 (a number, not nan); (b) getSample is the image under getX
    of the standard normal vector drawn from the generator (whatever numpy routine draws it: randn, standard_normal and normal share
    one stream)"""
    core.import_impl()
    import numpy as np
    from scipy import stats
    from ffpack import rpm
    nat = rpm.NatafTransformation([stats.expon(), stats.norm()], [[1.0, 0.5], [0.5, 1.0]])
    for x in ([-0.5, 0.3], [-2.0, -1.0], [-0.1, 4.0]):
        res.evaluations += 1
        res.stat('pdf_outside_support')
        v = float(nat.pdf(x))
        if not (v == 0.0):
            fail(res, 'pdf outside the support of a marginal is not 0', {'marginals': ['expon()', 'norm()'], 'corr': 0.5, 'x': x}, repr(v))
    dists = [stats.norm(), stats.expon(), stats.norm(10, 2)]
    R = [[1.0, 0.6, 0.2], [0.6, 1.0, -0.3], [0.2, -0.3, 1.0]]
    nat3 = rpm.NatafTransformation(dists, R)
    for sd in (3, 11):
        np.random.seed(sd)
        smp = np.asarray(nat3.getSample(), dtype=float)
        np.random.seed(sd)
        u = np.random.randn(3)
        want = np.asarray(nat3.getX(u)[0], dtype=float)
        res.evaluations += 1
        res.stat('getSample_is_getX_of_the_drawn_vector')
        if not np.allclose(smp, want, rtol=1e-12, atol=1e-12):
            fail(res, 'getSample is not the Nataf image of the standard normal vector it drew', {'marginals': 'norm, expon, norm(10,2)', 'corr': R, 'seed': sd},
                 {'sample': smp.tolist(), 'getX(u)': want.tolist()})
    # sampling with other transformations constructed in between, under an installed global seed: the samples are those of the undisturbed
    # stream (constructing an object draws nothing and re-seeds nothing)
    from ffpack.config import globalConfig
    old_seed = getattr(globalConfig, 'seed', None)
    try:
        seqs = []
        for interleave in (False, True):
            globalConfig.setSeed(5)
            nat_s = rpm.NatafTransformation(dists, R)
            out = []
            for _k in range(4):
                out.append(np.asarray(nat_s.getSample(), dtype=float).tolist())
                if interleave:
                    rpm.NatafTransformation([stats.norm(), stats.lognorm(0.4)], [[1.0, 0.3], [0.3, 1.0]])
            seqs.append(out)
        res.evaluations += 1
        res.stat('sampling_with_constructions_in_between')
        if seqs[0] != seqs[1] or len({tuple(x) for x in seqs[1]}) < 4:
            fail(res, 'samples drawn with other transformations constructed in between differ from the undisturbed sequence (or repeat)',
                 {'marginals': 'norm, expon, norm(10,2)', 'corr': R, 'global_seed': 5}, {'undisturbed': seqs[0][:2], 'interleaved': seqs[1][:2]})
    finally:
        try:
            globalConfig.setSeed(old_seed)
        except Exception:  # noqa
            pass


def high_correlation(res):
    """|rho| >= 0.98: the fixed 99-point Gauss-Legendre rule on [-8, 8]^2 no longer resolves the ridge of the density (recorded limitation)"""
    core.import_impl()
    from scipy import stats
    from ffpack import rpm
    for rho in (0.99, -0.99, 0.999):
        res.evaluations += 1
        res.stat('correlation_above_0.98')
        nat = rpm.NatafTransformation([stats.norm(), stats.norm(2, 3)], [[1.0, rho], [rho, 1.0]])
        if abs(float(nat.rhoZ[0, 1]) - rho) > 1e-6:
            fail(res, 'latent correlation differs from the prescribed one for normal marginals', {'marginals': 'norm(), norm(2,3)', 'corr': rho},
                 float(nat.rhoZ[0, 1]), sig='C11:latent-correlation-quadrature:abs-rho-above-0.98')


def fallback_search(res):
    """the last-resort root search: make the first two fsolve calls report failure (fault injected from outside)"""
    core.import_impl()
    from unittest import mock
    from scipy import stats, optimize
    from ffpack import rpm
    from ffpack.rpm import nataf as natmod
    real = optimize.fsolve
    calls = {'n': 0}

    def flaky(*a, **k):
        calls['n'] += 1
        out = real(*a, **k)
        if calls['n'] <= 2:
            return (out[0], out[1], 5, 'injected failure')
        return out
    res.evaluations += 1
    try:
        with mock.patch.object(natmod.optimize, 'fsolve', side_effect=flaky):
            nat = rpm.NatafTransformation([stats.norm(), stats.expon()], [[1.0, 0.4], [0.4, 1.0]])
        if not (0.3 < nat.rhoZ[0, 1] < 0.6):
            fail(res, 'fallback root search stored a wrong latent correlation', {'corr': 0.4}, float(nat.rhoZ[0, 1]))
    except ValueError as e:
        fail(res, 'admissible correlation rejected when the first two root searches fail (fallback search always raises)',
             {'marginals': ['norm', 'expon'], 'corr': 0.4, 'fault': 'first two fsolve calls report ier != 1'}, str(e),
             sig='C11:fallback-root-search-always-raises')


def magnitudes_and_config(res):
    """(1) normal marginals whose mean is thousands of standard deviations (a temperature of 293.15 +- 0.05 K, a pressure of 101325 +- 10 Pa,
    time stamps): the latent correlation of normal marginals IS the prescribed one (theorem), here to 1e-9 (the unchanged tree: 1e-12), and
    getX is the linear map mu + sigma L u; (2) heavy-tailed lognormal pairs (sigma_ln 2 … 2.5) under globalConfig.atol = 8, 1, 0: the
    configured digits concern the cycle counters, the latent correlation stays the closed form (at 3e-5, the accuracy of the quadrature)"""
    import numpy as np
    from scipy import stats
    from ffpack import rpm
    from ffpack.config import globalConfig
    for (m1, s1, m2, s2, r) in ((293.15, 0.05, 101325.0, 10.0, 0.5), (5e4, 1.0, 1e6, 1.0, -0.3), (1e3, 1.0, 2e4, 3.0, 0.7), (1.7e9, 30.0, 4e5, 2.0, 0.4)):
        case = {'marginals': [['norm', m1, s1], ['norm', m2, s2]], 'rho': r}
        res.evaluations += 1
        res.stat('normal_marginals_mean_far_above_std')
        try:
            nat = rpm.NatafTransformation([stats.norm(m1, s1), stats.norm(m2, s2)], [[1.0, r], [r, 1.0]])
            X, _ = nat.getX([0.5, -1.25])
        except Exception as e:  # noqa
            fail(res, 'NatafTransformation raised on normal marginals with a large mean / std ratio: ' + repr(e)[:100], case, None)
            continue
        L = np.linalg.cholesky(np.array([[1.0, r], [r, 1.0]]))
        z = L @ np.array([0.5, -1.25])
        want = [m1 + s1 * z[0], m2 + s2 * z[1]]
        if abs(float(nat.rhoZ[0][1]) - r) > 1e-9 or any(abs(a - b) > 1e-7 * sd for a, b, sd in zip(X, want, (s1, s2))):
            fail(res, 'normal marginals: latent correlation differs from the prescribed one / getX is not mu + sigma L u', case,
                 {'rhoZ': float(nat.rhoZ[0][1]), 'X': [float(v) for v in X], 'expected_X': want})
    old = (globalConfig.atol, globalConfig.rtol)
    for (a1, a2, r) in ((2.0, 2.0, 0.1), (2.5, 2.0, 0.3), (2.2, 2.2, 0.2)):
        closed = math.log(1 + r * math.sqrt(math.exp(a1 * a1) - 1) * math.sqrt(math.exp(a2 * a2) - 1)) / (a1 * a2)
        for digits in (8, 1, 0):
            case = {'marginals': [['lognorm', a1], ['lognorm', a2]], 'rho': r, 'globalConfig.atol': digits, 'closed_form': closed}
            res.evaluations += 1
            res.stat('heavy_tailed_lognormal_pair_atol_%d' % digits)
            try:
                globalConfig.atol = digits
                nat = rpm.NatafTransformation([stats.lognorm(a1), stats.lognorm(a2)], [[1.0, r], [r, 1.0]])
            except Exception as e:  # noqa
                fail(res, 'NatafTransformation raised on a heavy-tailed lognormal pair: ' + repr(e)[:100], case, None)
                continue
            finally:
                globalConfig.atol, globalConfig.rtol = old
            if abs(float(nat.rhoZ[0][1]) - closed) > 3e-5:
                fail(res, 'latent correlation differs from the lognormal closed form', case, float(nat.rhoZ[0][1]))


def other_quadrature_first():
    """the very first transformations of the process are built with non-default quadrature settings (their own results are not looked
    at): everything that follows uses the defaults and must not depend on what was built before"""
    core.import_impl()
    from scipy import stats
    from ffpack import rpm
    for kw in ({'quadDeg': 99, 'quadRange': 2.5}, {'quadDeg': 31, 'quadRange': 8}, {'quadDeg': 99, 'quadRange': 4.0}):
        try:
            rpm.NatafTransformation([stats.norm(), stats.lognorm(0.5)], [[1.0, 0.6], [0.6, 1.0]], **kw)
        except Exception:  # noqa
            pass


def run(tier, seed):
    res = core.Result(PID, tier, seed)
    res.rule = ('eight marginal families with random parameters x dimension 1-4 x random positive-definite correlation matrices (dense, sparse with zero entries, or identity), parameters written positionally / by keyword '
                'x random points; distinct by (marginals, correlation)')
    core.prove(res, PID, MODULES, clean=(tier == 'thorough'))
    n = 14 if tier == 'quick' else 400
    other_quadrature_first()
    # every stream uses admissible marginals and positive-definite correlation matrices only: an exception that escapes from one of
    # them is a valid input rejected (or mishandled) by the implementation and is reported with the last constructor arguments
    core.import_impl()
    from unittest import mock
    from ffpack import rpm
    last = {}
    orig_init = rpm.NatafTransformation.__init__

    def spy(self, distObjs, corrMat, *a, **k):
        try:
            last['args'] = {'marginals': [(d.dist.name, list(d.args), dict(d.kwds)) for d in distObjs], 'corrMat': [list(map(float, r)) for r in corrMat],
                            'more': [repr(a), repr(k)]}
        except Exception:  # noqa
            last['args'] = {'marginals': repr(distObjs)[:200], 'corrMat': repr(corrMat)[:200]}
        return orig_init(self, distObjs, corrMat, *a, **k)
    streams = [(explore, (res, random.Random(seed), n)), (same_family, (res, random.Random(seed + 1))), (sparse_corr, (res,)), (high_correlation, (res,)),
               (pdf_tails, (res,)), (shifted_lognormal, (res,)), (boundary_and_sampling, (res, random.Random(seed + 2))), (fallback_search, (res,)), (magnitudes_and_config, (res,))]
    with mock.patch.object(rpm.NatafTransformation, '__init__', spy):
        for fn, args in streams:
            try:
                fn(*args)
            except Exception as e:  # noqa
                fail(res, 'valid problem raised %s: %s (stream %s)' % (type(e).__name__, str(e)[:80], fn.__name__), last.get('args'), None)
    res.traces = res.evaluations
    # executable Lean model of the transformation (Model/Nataf.lean, Model/Chol.lean) against the implementation
    import formmodel
    formmodel.nataf_stream(res, random.Random(seed + 11), 60 if tier == 'quick' else 2500)
    res.disagreements_checked = res.evaluations
    res.trusted += ['theorems are about the exact maps with abstract marginals (cdf, ppf, pdf), standard normal cdf/pdf and a Cholesky factor; the '
                    'implementation is tied by tolerance checks: round trips 1e-8, Jacobian products 1e-8, finite differences 1e-4, '
                    'latent correlation 1e-5/1e-6, factorisation 1e-8, quadrature 1e-5..2e-3',
                    'Proofs/C11Model.lean + C11Chol.lean: theorems about the executable model (normal / lognormal marginals, Cholesky factor and triangular '
                    'inverse computed by the model); the model is tied to the implementation by comparing L, L^-1, getU, getX and both returned matrices at '
                    '1e-8..1e-11 and the closed-form latent correlation with rhoZ at 2e-6',
                    'scipy.stats distributions, Gauss-Legendre quadrature and fsolve are external (modelled, not verified); np.linalg.cholesky / solve are '
                    'compared with the verified model factorisation']
    return core.finish(res)


def replay(path):
    d = json.load(open(path))
    f = d.get('failure')
    if not f:
        print('replay file names a broken obligation/tie, no input to replay:', json.dumps(d.get('no_longer_checks'))[:800])
        return 1
    print('recorded:', json.dumps(f, default=str)[:1500])
    return 1
