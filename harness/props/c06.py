"""C06 — Rychlik and Johannesson cycles follow their per-peak top-level definition (DESIGN §5 C06)"""
import json
import os
import random
import core
import cyc
from core import enc_list, enc_cycs, enc_table

PID = 'C06'
MODULES = ['FFVerif.Proofs.C06', 'FFVerif.Proofs.C06Rainflow', 'FFVerif.Lemmas.RyBottom']


def corpus():
    p = os.path.join(core.VERIF, 'corpus', 'histories.json')
    return [(h, 0) for h in json.load(open(p))] if os.path.exists(p) else []


def gen(rng):
    h, s = core.gen_history(rng, maxlen=30)
    r = rng.random()
    if r < 0.45 and len(h) >= 1:       # close at the global minimum
        m = min(h) - rng.choice([0, 0, 1])
        h = [m] + h + [m]
    return h, s


def explore(res, rng, n, exhaustive=None):
    cases = corpus() + [gen(rng) for _ in range(n)]
    if exhaustive:
        L, V = exhaustive
        for h in core.small_histories(L, V):
            cases.append((h, 0))
            cases.append(([0] + [v + 0 for v in h] + [0], 0))
    cyc.micro_stream(res, ['rychlik', 'johannesson'], rng, max(30, n // 25), lambda name, h, out: (f'c06jo {enc_list(h)} {enc_cycs(out["seq"])}' if name == 'johannesson' else None))
    cyc.extreme_scale_stream(res, ['rychlik', 'johannesson'], rng, max(12, n // 60))
    cyc.narrow_dtype_stream(res, ['rychlik', 'johannesson'], rng, max(10, n // 80))
    reqs, meta = [], []
    for h, s in cases:
        if len(h) < 2:
            continue
        cyc.hist_stats(res, h)
        closed = h[0] == h[-1] and h[0] == min(h)
        res.stat('closed_at_min' if closed else 'open')
        outs = {}
        for name in ('rychlik', 'johannesson', 'rainflow'):
            outs[name] = cyc.run_impl(name, h, s)
        for name in ('rychlik', 'johannesson'):
            out = outs[name]
            res.evaluations += 1
            if cyc.nontrivial_key(h):
                res.nontrivial.add((name, tuple(h)))
            reqs.append(cyc.model_line(name, h))
            meta.append(('corr', name, h, s, out))
            if 'error' in out or 'error' in outs['rainflow']:
                continue
            if name == 'johannesson':
                reqs.append(f'c06jo {enc_list(h)} {enc_cycs(out["seq"])}')
            else:
                reqs.append(f'c06ry {enc_list(h)} {enc_cycs(out["seq"])} {enc_table(out["table"])} {enc_table(outs["rainflow"]["table"])}')
            meta.append(('pred', name, h, s, out))
    for (kind, name, h, s, out), a in zip(meta, core.driver_batch(reqs)):
        if kind == 'corr':
            res.traces += 1
            if cyc.impl_line(out) != a:
                res.disagreements.append({'what': cyc.API[name] + ' vs model', 'input': h, 'scale': s,
                                          'impl': cyc.impl_line(out), 'model': a})
        elif a != 'ok':
            sig = f'C06:{name}:{a}:{enc_list(h)}'
            if name == 'rychlik' and a == 'fail:rainflow-table' and len(set(h)) == 1:
                sig = 'C06:rychlik:rainflow-table:constant-history'
            res.failures.append({'signature': sig, 'clause': a, 'api': cyc.API[name],
                                 'input': h, 'scale': s, 'impl_output': cyc.impl_line(out)})
    res.samples += [{'history': h, 'scale_2^-s': s} for h, s in cases[len(corpus()):len(corpus()) + 3]]
    # changed globalConfig.atol: on histories closed at the global minimum whose Rychlik and rainflow tables agree at the default
    # number of digits, they agree at any other number of digits as well (both are rounded at call time)
    core.import_impl()
    from ffpack import lcc
    k = 0
    for h, s in cases:
        if k >= max(30, n // 20):
            break
        if s != 0 or len(set(h)) < 3 or not (h[0] == h[-1] == min(h)) or max(abs(v) for v in h) > 4096:
            continue
        k += 1
        data = [v / 100.0 for v in h]
        base = (lcc.rychlikRainflowCounting(list(data), aggregate=True), lcc.astmRainflowCounting(list(data), aggregate=True))
        if [round(a, 6) for r in base[0] for a in r] != [round(a, 6) for r in base[1] for a in r]:
            continue
        digits = (sum(h) + k) % 3
        with cyc.with_atol(digits):
            ry = lcc.rychlikRainflowCounting(list(data), aggregate=True)
            rf = lcc.astmRainflowCounting(list(data), aggregate=True)
        res.evaluations += 1
        res.stat('config_atol_%d' % digits)
        if [round(a, 9) for r in ry for a in r] != [round(a, 9) for r in rf for a in r]:
            res.failures.append({'signature': f'C06:rychlik:config-atol:{enc_list(h)}:{digits}',
                                 'clause': 'Rychlik table differs from the rainflow table after globalConfig.atol = %d' % digits,
                                 'api': 'rychlikRainflowCounting', 'input': h, 'scale': 'x 0.01', 'atol_digits': digits,
                                 'impl_output': {'rychlik': ry[:6], 'rainflow': rf[:6]}})


def run(tier, seed):
    res = core.Result(PID, tier, seed)
    res.rule = ('random tie-rich histories, 45% closed at the global minimum; non-trivial = at least one interior '
                'reversal; distinct by (counter, value tuple)')
    core.prove(res, PID, MODULES, clean=(tier == 'thorough'))
    n = 2500 if tier == 'quick' else 50000
    ex = (5, 4) if tier == 'quick' else (7, 4)
    explore(res, random.Random(seed), n, exhaustive=ex)
    res.notes.append('all histories of length <= %d over %d values, open and closed at the minimum, enumerated in addition (a test)' % ex)
    if (res.proof_problems or res.disagreements) and not res.failures:
        explore(res, random.Random(seed + 7919), 4 * n)
    res.disagreements_checked = res.traces
    res.trusted += ['hand-written models FF.rychlik / FF.johannesson (getMinLeft/getMinRight as scanMin) tied by exact correspondence']
    return core.finish(res)


def replay(path):
    d = json.load(open(path))
    f = d.get('failure')
    if not f:
        print('replay file names a broken obligation/tie, no input to replay:', json.dumps(d.get('no_longer_checks'))[:500])
        return 1
    h, s = f['input'], f.get('scale', 0)
    name = [k for k, v in cyc.API.items() if v == f['api']][0]
    out = cyc.run_impl(name, h, s)
    rf = cyc.run_impl('rainflow', h, s)
    if name == 'johannesson':
        req = f'c06jo {enc_list(h)} {enc_cycs(out["seq"])}'
    else:
        req = f'c06ry {enc_list(h)} {enc_cycs(out["seq"])} {enc_table(out["table"])} {enc_table(rf["table"])}'
    ans = core.driver_batch([req])[0]
    print('api', f['api'], 'input', h, 'scale', s, 'impl', cyc.impl_line(out), 'rainflow table', rf.get('table'), 'predicate', ans)
    return 0 if ans == 'ok' else 1
