"""C12 — SORM reduces to FORM at zero curvature and matches the paraboloid formulas (DESIGN §5 C12)"""
import json
import math
import os
import random
from unittest import mock
import core
import gen

PID = 'C12'
MODULES = ['FFVerif.Proofs.C12', 'FFVerif.Proofs.C12Chain', 'FFVerif.Proofs.C20Align', 'FFVerif.Proofs.C12Basis', 'FFVerif.Proofs.VecGen', 'FFVerif.Proofs.C12Pipe', 'FFVerif.Proofs.C12Rows', 'FFVerif.Proofs.C12Hess', 'FFVerif.Proofs.C12Scale']


def fail(res, clause, case, out, sig=None):
    res.failures.append({'signature': sig or 'C12:' + clause + ':' + json.dumps(case, default=str), 'clause': clause, 'input': case,
                         'impl_output': out})


def rotation(rng, n):
    import numpy as np
    A = np.array([[rng.gauss(0, 1) for _ in range(n)] for _ in range(n)])
    Q, R = np.linalg.qr(A)
    return Q * np.sign(np.diag(R))


def explore(res, rng, n):
    core.import_impl()
    import numpy as np
    from scipy import stats
    from ffpack import rrm
    from ffpack.rrm import secondOrderReliabilityMethod as sorm
    Phi, phi = stats.norm.cdf, stats.norm.pdf
    reqs, meta = [], []
    # ---- the three closing formulas with the curvature extraction replaced (as the repository's own tests do)
    for i in range(n * 5):
        d = rng.choice([2, 3, 4, 5])
        beta = rng.choice([0.5, 1.0, 2.0, 3.0, 4.0, 6.0, 7.5, 8.2])      # (pf down to 1e-16: the first-order factor must be Phi(-beta), not 1 - Phi(beta))
        ks = [rng.choice([0.0, 0.0, 0.1, 0.3, -0.1 / beta, 0.5, -0.2 / beta]) for _ in range(d - 1)]
        with mock.patch.object(sorm, 'mainCurvaturesAtDesignPoint', return_value=(ks, beta, [0.0] * d, [0.0] * d)):
            # (valid arguments of a problem of their own in every call: what is replaced is the curvature extraction only)
            g_ = (lambda X: 0.0)
            ds_ = [stats.norm() for _ in range(d)]
            outs = {nm: f(d, g_, None, ds_, np.eye(d).tolist())[1] for nm, f in (('breitung', rrm.breitungSORM), ('tvedt', rrm.tvedtSORM), ('hrack', rrm.hrackSORM))}
        res.evaluations += 1
        res.nontrivial.add(('formula', beta, tuple(ks)))
        res.stat('formula_all_zero_curvature' if not any(ks) else 'formula_curved')
        case = {'beta': beta, 'ks': ks}
        form = float(Phi(-beta))
        want_b = form * math.prod((1 + beta * k) ** -0.5 for k in ks)
        psi = float(phi(beta) / Phi(beta))
        want_h = form * math.prod((1 + psi * k) ** -0.5 for k in ks)
        if not gen.close(outs['breitung'], want_b, 1e-12):
            fail(res, 'Breitung != Phi(-beta) prod (1 + beta k_i)^-1/2', case, [outs['breitung'], want_b])
        if not gen.close(outs['hrack'], want_h, 1e-12):
            fail(res, 'Hohenbichler-Rackwitz != Phi(-beta) prod (1 + phi/Phi k_i)^-1/2', case, [outs['hrack'], want_h])
        if not any(ks):
            for nm, v in outs.items():
                if not gen.close(v, form, 1e-12):
                    fail(res, f'{nm}: zero curvature does not give the FORM probability', case, [v, form])
        perm = ks[:]
        rng.shuffle(perm)
        with mock.patch.object(sorm, 'mainCurvaturesAtDesignPoint', return_value=(perm, beta, [0.0] * d, [0.0] * d)):
            if not gen.close(rrm.breitungSORM(d, (lambda X: 0.0), None, [stats.norm() for _ in range(d)], np.eye(d).tolist())[1], outs['breitung'], 1e-12):
                fail(res, 'Breitung depends on the order of the curvatures', case, None)
        # (Hohenbichler-Rackwitz uses phi/Phi in place of beta: at beta = 8.2 that is 1e-15 and the factor is 1 to machine precision, so the
        #  inequality is strict only where phi/Phi * |k| is resolved by binary64)
        hr_resolved = psi * max(abs(k) for k in ks) > 1e-10
        if all(k >= 0 for k in ks) and any(ks) and not (outs['breitung'] < form and (outs['hrack'] < form if hr_resolved else outs['hrack'] <= form)):
            fail(res, 'curvature away from the origin does not lower the estimate', case, [outs, form])
        if all(-1 / beta < k <= 0 for k in ks) and any(ks) and not (outs['breitung'] > form and (outs['hrack'] > form if hr_resolved else outs['hrack'] >= form)):
            fail(res, 'curvature towards the origin does not raise the estimate', case, [outs, form])
        reqs.append('c12 ' + ' '.join(str(gen.bits(x)) for x in [beta, form, float(phi(beta)), float(Phi(beta))] + ks))
        meta.append((case, outs))
        reqs.append('c12gen ' + ' '.join(str(gen.bits(x)) for x in [beta, form, float(phi(beta)), float(Phi(beta))] + ks))
        meta.append((case, outs))
    for (case, outs), a in zip(meta, core.driver_batch(reqs)):
        res.traces += 1
        if a == 'bad-request':
            res.disagreements.append({'what': 'model driver has no c12 command', 'input': case})
            continue
        vals = [gen.unbits(x) for x in a.split()]
        if len(vals) == 3:
            # the definitions regenerated from the source text (Gen/VecFormulas.lean), all three estimates
            if not (gen.close(vals[0], outs['breitung'], 1e-11) and gen.close(vals[1], outs['tvedt'], 1e-9) and gen.close(vals[2], outs['hrack'], 1e-11)):
                res.disagreements.append({'what': 'closing formulas vs the regenerated definitions (translation validation)', 'input': case, 'impl': outs, 'model': vals})
            continue
        b, h = vals
        if not gen.close(b, outs['breitung'], 1e-11) or not gen.close(h, outs['hrack'], 1e-11):
            res.disagreements.append({'what': 'closing formulas vs model', 'input': case, 'impl': outs, 'model': [b, h]})
    # ---- curvature extraction on rotated paraboloids in standard normal space
    for i in range(n):
        d = rng.choice([2, 3, 4])
        beta = rng.choice([1.0, 2.0, 3.0, 0.0]) if i else 0.0        # beta = 0: the limit surface passes through the origin of U space
        ks = [rng.choice([0.0, 0.1, 0.3, -0.15 / max(beta, 1.0), 0.5]) for _ in range(d - 1)]
        Q = rotation(rng, d)
        if rng.random() < 0.35:
            # axes merely re-ordered / mirrored: the design point lies exactly on a coordinate axis
            perm = list(range(d)); rng.shuffle(perm)
            Q = np.zeros((d, d))
            for a_, b_ in enumerate(perm):
                Q[a_, b_] = rng.choice([1.0, -1.0])
            res.stat('paraboloid_axes_permuted')
        def g(u, Q=Q, ks=ks, beta=beta):
            v = Q.T @ np.asarray(u, dtype=float)
            return float(beta - v[-1] + 0.5 * sum(k * vi * vi for k, vi in zip(ks, v[:-1])))

        def gradu(u, Q=Q, ks=ks):
            v = Q.T @ np.asarray(u, dtype=float)
            return Q @ np.array([k * vi for k, vi in zip(ks, v[:-1])] + [-1.0])
        dg_an = None
        # a third of the cases: one more variable that the limit state ignores (first, middle or last position), analytic gradient
        dummy = rng.random() < 0.35
        if dummy:
            pos_ = rng.choice([0, 0, d // 2, d])
            g0, gr0, d0 = g, gradu, d
            keep_ = [j for j in range(d0 + 1) if j != pos_]
            g = (lambda u, g0=g0, keep_=keep_: g0(np.asarray(u, dtype=float)[keep_]))
            def gradu(u, gr0=gr0, keep_=keep_, d0=d0):
                out_ = np.zeros(d0 + 1)
                out_[keep_] = gr0(np.asarray(u, dtype=float)[keep_])
                return out_
            d = d0 + 1
            if rng.random() < 0.6:
                dg_an = [(lambda X, j=j, gradu=gradu: float(gradu(X)[j])) for j in range(d)]
            res.stat('paraboloid_with_ignored_variable_at_%s' % ('first' if pos_ == 0 else 'last' if pos_ == d0 else 'middle'))
        # half of the cases: the same surface seen through correlated normal marginals x = mu + D L u
        corr = np.eye(d)
        dists = [stats.norm() for _ in range(d)]
        if rng.random() < 0.5 and dg_an is None:
            from props.c11 import random_corr
            corr = random_corr(rng, d)
            mus = np.array([float(rng.randint(-2, 2)) for _ in range(d)])
            sg = np.array([rng.choice([1.0, 2.0, 0.5]) for _ in range(d)])
            Lc = np.linalg.cholesky(corr)
            gu = g
            g = (lambda X, gu=gu, Lc=Lc, mus=mus, sg=sg: gu(np.linalg.solve(Lc, (np.asarray(X, dtype=float) - mus) / sg)))
            dists = [stats.norm(m, s_) for m, s_ in zip(mus, sg)]
            res.stat('paraboloid_correlated_marginals')
        case = {'beta': beta, 'ks': ks, 'Q': np.round(Q, 6).tolist(), 'corr': np.round(corr, 4).tolist(), 'ignored_variable': (pos_ if dummy else None), 'analytic_dg': dg_an is not None}
        res.evaluations += 1
        res.nontrivial.add(json.dumps(case))
        res.stat('paraboloid_dim_%d' % d)
        if i < 2:
            res.samples.append(case)
        try:
            b, pf, u, x = rrm.breitungSORM(d, g, dg_an, dists, corr.tolist())
            bh, pfh, _, _ = rrm.hrackSORM(d, g, dg_an, dists, corr.tolist())
            bf, pff, uf, xf = rrm.coptFORM(d, g, dists, corr.tolist())
        except Exception as e:  # noqa
            fail(res, 'SORM raised on a paraboloid', case, repr(e)[:200])
            continue
        form = float(Phi(-beta))
        want = form * math.prod((1 + beta * k) ** -0.5 for k in ks)
        psi = float(phi(beta) / Phi(beta))
        wanth = form * math.prod((1 + psi * k) ** -0.5 for k in ks)
        if abs(b - beta) > 1e-3 or abs(b - bf) > 1e-9 or not np.allclose(u, uf, atol=1e-9):
            fail(res, 'beta / design point are not those of FORM', case, [b, bf, beta])
        # the closed forms are evaluated at the exact beta; the estimates at the beta FORM found (accepted above within 1e-3: at beta = 0 the
        # objective |u| of coptFORM is not differentiable at the solution and SLSQP stops 5e-4 away): d pf / d beta = -phi( beta ) x (factor <= ~2)
        slack = 3.0 * float(phi(beta)) * abs(b - beta)
        if abs(pf - want) > 2e-4 * want + slack or abs(pfh - wanth) > 2e-4 * wanth + slack:
            fail(res, 'paraboloid: estimate differs from the closed form (rotation / ordering of axes)', case, [pf, want, pfh, wanth])
    # ---- flat limit states: linear in correlated normals; flat in U space with lognormal marginals
    flat = []
    for i in range(max(2, n // 3)):
        rho = rng.choice([0.0, 0.3, -0.4])
        flat.append(('linear-correlated-normal', [stats.norm(1, 2), stats.norm(0, 1)], [[1.0, rho], [rho, 1.0]],
                     (lambda X: 6.0 - X[0] - 2 * X[1])))
    # the origin already in the failure set: FORM's beta is negative and SORM must keep its sign
    flat.append(('linear-origin-failed', [stats.norm(), stats.norm()], [[1.0, 0.0], [0.0, 1.0]], (lambda X: -1.0 - X[0] - X[1])))
    flat.append(('linear-origin-failed-correlated', [stats.norm(1, 2), stats.norm(0, 1)], [[1.0, 0.3], [0.3, 1.0]], (lambda X: -2.0 - X[0] + 2 * X[1])))
    # ordinary engineering magnitudes (means of hundreds, standard deviations of tens)
    flat.append(('linear-engineering-magnitudes', [stats.norm(500, 50), stats.norm(300, 40)], [[1.0, 0.0], [0.0, 1.0]],
                 (lambda X: 0.9 * X[0] - 1.1 * X[1] - 25.3)))
    flat.append(('linear-engineering-magnitudes-correlated', [stats.norm(2.0e5, 1.5e4), stats.norm(1.2e5, 2.0e4)], [[1.0, 0.4], [0.4, 1.0]],
                 (lambda X: X[0] - X[1] - 1.0e4)))
    # limit states of one variable only: the design direction is exactly +-e_i
    flat.append(('single-variable-plus', [stats.norm(), stats.norm()], [[1.0, 0.0], [0.0, 1.0]], (lambda X: X[1] + 2.0)))
    flat.append(('single-variable-minus', [stats.norm(), stats.norm(), stats.norm()], [[1.0, 0.0, 0.0], [0.0, 1.0, 0.0], [0.0, 0.0, 1.0]], (lambda X: 2.5 - X[1])))
    flat.append(('single-variable-first', [stats.norm(1, 2), stats.norm(), stats.norm()], [[1.0, 0.0, 0.0], [0.0, 1.0, 0.0], [0.0, 0.0, 1.0]], (lambda X: X[0] + 4.0)))
    s = 0.5
    flat.append(('lognormal-product', [stats.lognorm(s), stats.lognorm(s)], [[1.0, 0.0], [0.0, 1.0]],
                 (lambda X: 2.0 - math.log(X[0]) - math.log(X[1]))))
    # correlated non-normal marginals: ln x1 + ln x2 is linear in z = L u, hence flat in U space
    for rho_ in (-0.6, 0.5, 0.8):
        flat.append(('lognormal-product-correlated', [stats.lognorm(0.5), stats.lognorm(0.3)], [[1.0, rho_], [rho_, 1.0]],
                     (lambda X: X[0] * X[1] - 0.3)))
    flat.append(('lognormal-ratio', [stats.lognorm(0.3), stats.lognorm(0.4)], [[1.0, 0.0], [0.0, 1.0]],
                 (lambda X: math.log(X[0]) - math.log(X[1]) + 1.2)))
    for name, dists, corr, g in flat:
        res.evaluations += 1
        res.stat('flat_' + name)
        case = {'problem': name, 'corr': corr}
        try:
            dimf = len(dists)
            bf, pff, _, _ = rrm.coptFORM(dimf, g, dists, corr)
            full = {nm: f(dimf, g, None, dists, corr) for nm, f in (('breitung', rrm.breitungSORM), ('tvedt', rrm.tvedtSORM), ('hrack', rrm.hrackSORM))}
            outs = {nm: v[1] for nm, v in full.items()}
            for nm, v in full.items():
                if abs(v[0] - bf) > 1e-6 * (1 + abs(bf)):
                    fail(res, f'{nm}: beta is not that of FORM', case, {'sorm_beta': float(v[0]), 'form_beta': float(bf)})
        except Exception as e:  # noqa
            fail(res, 'SORM raised on a flat limit state', case, repr(e)[:200])
            continue
        for nm, v in outs.items():
            if abs(v - pff) > 2e-4 * pff:
                fail(res, f'{nm}: flat limit surface but the estimate differs from FORM', case, {'sorm': v, 'form': pff},
                     sig=f'C12:flat-not-form:{name}')


def numerical_gradient_small_magnitudes(res):
    """dg = None on a limit state that is not quadratic in X, with variables of magnitude 1e-3 (lengths in metres): the built-in
    numerical gradient must be taken with the step that was asked for (dx), so that the estimates agree with those for the analytic
    gradient; a paraboloid in U space written through lognormal marginals"""
    core.import_impl()
    import numpy as np
    from scipy import stats
    from ffpack import rrm
    s1, s2, m1, m2 = 0.2, 0.3, 2e-3, 1e-3
    beta0, kap = 2.5, 0.25
    def g(X):
        u1 = math.log(X[0] / m1) / s1
        u2 = math.log(X[1] / m2) / s2
        return beta0 - u2 + 0.5 * kap * u1 * u1
    dg = [lambda X: kap * (math.log(X[0] / m1) / s1) / (s1 * X[0]), lambda X: -1.0 / (s2 * X[1])]
    dists = [stats.lognorm(s1, scale=m1), stats.lognorm(s2, scale=m2)]
    for nm, f in (('breitung', rrm.breitungSORM), ('tvedt', rrm.tvedtSORM), ('hrack', rrm.hrackSORM)):
        res.evaluations += 1
        res.stat('numerical_gradient_small_magnitude')
        case = {'problem': 'paraboloid through lognormal(0.2, 2e-3) x lognormal(0.3, 1e-3)', 'method': nm}
        try:
            a = f(2, g, dg, dists, np.eye(2).tolist())
            b = f(2, g, None, dists, np.eye(2).tolist())
        except Exception as e:  # noqa
            fail(res, 'SORM raised on a smooth problem with variables of magnitude 1e-3: ' + repr(e)[:100], case, None)
            continue
        want = float(stats.norm.cdf(-beta0)) * (1 + (beta0 if nm != 'hrack' else float(stats.norm.pdf(beta0) / stats.norm.cdf(beta0))) * kap) ** -0.5
        if abs(b[1] - a[1]) > 2e-3 * a[1] or (nm != 'tvedt' and abs(a[1] - want) > 2e-3 * want):
            fail(res, f'{nm}: estimate with the built-in numerical gradient (dg = None) differs from the one with the analytic gradient / the paraboloid formula', case,
                 {'analytic_dg': float(a[1]), 'dg_None': float(b[1]), 'formula': want})


def reuse_and_unit(res, rng):
    """(1) a parametric study: ONE limit-state object (and one list of gradient callables, one list of marginals) whose parameters are
    changed between calls - every call must answer for the parameters of that moment; (2) the unit of g: the paraboloid multiplied by
    2^-20 … 2^-40 (values of 1e-6 … 1e-12) must give the estimates of the unscaled one (the curvatures are those of the SURFACE g = 0)"""
    core.import_impl()
    import numpy as np
    from scipy import stats
    from ffpack import rrm
    Phi, phi = stats.norm.cdf, stats.norm.pdf

    class Par:
        def __init__(self):
            self.beta, self.ks, self.scale = 2.0, [0.1, 0.2], 1.0

        def __call__(self, u):
            u = np.asarray(u, dtype=float)
            return self.scale * float(self.beta - u[-1] + 0.5 * sum(k * v * v for k, v in zip(self.ks, u[:-1])))

        def grad(self, j):
            return lambda u, j=j: self.scale * float(-1.0 if j == len(self.ks) else self.ks[j] * np.asarray(u, dtype=float)[j])

    def closed(beta, ks):
        form = float(Phi(-beta))
        psi = float(phi(beta) / Phi(beta))
        return form * math.prod((1 + beta * k) ** -0.5 for k in ks), form * math.prod((1 + psi * k) ** -0.5 for k in ks)

    P = Par()
    dgs = [P.grad(j) for j in range(3)]
    dists = [stats.norm(), stats.norm(), stats.norm()]
    corr = np.eye(3).tolist()
    seq = [(2.0, [0.1, 0.2], 1.0), (3.0, [0.1, 0.2], 1.0), (3.0, [0.3, -0.05], 1.0), (1.5, [0.0, 0.25], 1.0),
           (2.0, [0.1, 0.2], 2.0 ** -20), (2.0, [0.1, 0.2], 2.0 ** -30), (2.5, [0.2, 0.05], 2.0 ** -40), (2.0, [0.1, 0.2], 1.0)]
    for step, (beta, ks, sc) in enumerate(seq):
        P.beta, P.ks, P.scale = beta, list(ks), sc
        case = {'step': step, 'beta': beta, 'ks': ks, 'g_multiplied_by': sc, 'earlier_parameters': [list(x[:2]) + [x[2]] for x in seq[:step]]}
        res.evaluations += 1
        res.stat('sorm_parametric_study_same_objects' if sc == 1.0 else 'sorm_limit_state_of_tiny_magnitude')
        wb, wh = closed(beta, ks)
        try:
            b, pfb, _, _ = rrm.breitungSORM(3, P, dgs, dists, corr)
            _, pfh, _, _ = rrm.hrackSORM(3, P, dgs, dists, corr)
            _, pft, _, _ = rrm.tvedtSORM(3, P, dgs, dists, corr)
        except Exception as e:  # noqa
            fail(res, 'SORM raised on a paraboloid (parametric study / small unit of g): ' + repr(e)[:100], case, None)
            continue
        if abs(b - beta) > 1e-3 or abs(pfb - wb) > 3e-4 * wb or abs(pfh - wh) > 3e-4 * wh or not (0.0 < pft < 1.0):
            fail(res, 'paraboloid: estimate is not the closed form for the CURRENT parameters (same objects as in earlier calls, or g in a small unit)', case,
                 {'beta': float(b), 'breitung': float(pfb), 'closed_breitung': wb, 'hrack': float(pfh), 'closed_hrack': wh})


def sorm_model_stream(res, rng, k):
    """the executable Lean model of the curvature extraction (Model/SormPipe.lean: gradient pulled back to U space, alignment vector,
    argmax column, Gram-Schmidt basis, U-space Hessian with the curvature of the marginal maps, conjugation, leading block) against
    `mainCurvaturesAtDesignPoint`, through the eigenvalues of the block, on random problems with normal / lognormal marginals, random
    correlation and linear / quadratic limit states (exact gradient and Hessian of g are handed to the model; the implementation
    differences g numerically and finds the design point with SLSQP, hence the tolerance)"""
    core.import_impl()
    import numpy as np
    from scipy import stats
    from ffpack import rpm
    from ffpack.rrm import secondOrderReliabilityMethod as sorm
    from formmodel import fcsv, unbits, gen_problem, gen_limit_state
    if not hasattr(sorm, 'mainCurvaturesAtDesignPoint'):
        # an internal helper of the module (the repository's own tests patch it too); without it the curvatures are not observable
        res.notes.append('mainCurvaturesAtDesignPoint not found: the curvature-extraction model stream was skipped')
        res.stat('sorm_model_stream_skipped')
        return
    reqs, meta = [], []
    for _ in range(k):
        d, kinds, p1, p2, dists, R = gen_problem(rng, np, stats, dmax=4)
        if d < 2:
            continue
        from formmodel import latent_admissible
        if not latent_admissible(np, kinds, p2, R, dists):
            res.stat('sorm_model_correlation_not_admissible_for_these_marginals')
            continue
        mean = np.array([float(ds.mean()) for ds in dists])
        sd = np.array([float(ds.std()) for ds in dists])
        shape, c0, b, Q = gen_limit_state(rng, np, d, mean, sd)
        g = lambda X, c0=c0, b=b, Q=Q: c0 + float(b @ np.array(X, dtype=float)) + float(np.array(X, dtype=float) @ Q @ np.array(X, dtype=float))
        dg = [(lambda X, kk=kk, b=b, Q=Q: float(b[kk] + ((Q + Q.T) @ np.array(X, dtype=float))[kk])) for kk in range(d)]
        case = {'kinds': kinds, 'p1': p1, 'p2': p2, 'corr': R.tolist(), 'c0': c0, 'b': b.tolist(), 'Q': Q.tolist()}
        res.evaluations += 1
        try:
            ks, beta, u, x = sorm.mainCurvaturesAtDesignPoint(d, g, dg if rng.random() < 0.7 else None, dists, R.tolist())
            nat = rpm.NatafTransformation(dists, R.tolist())
        except ValueError as e:
            if 'converge' in str(e):
                res.stat('sorm_model_design_point_not_found')
                continue
            fail(res, 'curvature extraction raised on a smooth problem: ' + repr(e)[:100], case, None)
            continue
        except Exception as e:  # noqa
            fail(res, 'curvature extraction raised on a smooth problem: ' + repr(e)[:100], case, None)
            continue
        x = np.array(x, dtype=float)
        # outside |z| <= 6 the implementation's route through cdf / ppf loses the upper tail (DESIGN 7)
        from formmodel import zs_of
        zs = zs_of(dists, x)
        if any(z != z for z in zs) or max(abs(z) for z in zs) > 6:
            res.stat('sorm_model_design_point_in_the_far_tail')
            continue
        res.stat('sorm_model_' + shape + ('_other_families' if any(kd not in 'nl' for kd in kinds) else '_lognormal' if 'l' in kinds else '_normal'))
        reqs.append(' '.join(['sormpipe', str(d), ','.join(kinds), fcsv(p1), fcsv(p2), fcsv(np.array(nat.rhoZ).flatten()), fcsv(x),
                              fcsv(b + (Q + Q.T) @ x), fcsv((Q + Q.T).flatten())]))
        meta.append((case, sorted(float(np.real(v)) for v in ks), d))
    for (case, ks, d), a in zip(meta, core.driver_batch(reqs)):
        res.traces += 1
        try:
            _gn, blk = a.split(' ')
            M = np.array(unbits(blk)).reshape(d - 1, d - 1)
            ev = sorted(float(v) for v in np.linalg.eigvalsh((M + M.T) / 2))
            ok = float(np.max(np.abs(M - M.T))) <= 1e-9 * (1 + float(np.max(np.abs(M)))) and all(abs(p - q) <= 2e-5 * (1 + max(abs(v) for v in ks)) for p, q in zip(ev, ks))
        except Exception:  # noqa
            ev, ok = a[:100], False
        if not ok:
            res.disagreements.append({'what': 'main curvatures vs the eigenvalues of the model block', 'input': case, 'impl': ks, 'model': ev})


def run(tier, seed):
    res = core.Result(PID, tier, seed)
    res.rule = ('closing formulas on random (beta, curvature vector) incl. all-zero and negative curvatures; rotated paraboloids in standard '
                'normal space (dimension 2-4); flat limit states (correlated normals, origin in the failure set, lognormal product / ratio); distinct by case')
    import translate_vec
    translate_vec.regenerate(res)      # Gen/VecFormulas.lean from the current source (numpy vector expressions)
    core.prove(res, PID, MODULES, clean=(tier == 'thorough'))
    sorm_model_stream(res, random.Random(seed + 9), 25 if tier == 'quick' else 600)
    reuse_and_unit(res, random.Random(seed + 10))
    numerical_gradient_small_magnitudes(res)
    n = 6 if tier == 'quick' else 120
    explore(res, random.Random(seed), n)
    res.disagreements_checked = res.traces
    res.trusted += ['closing formulas: hand-written generic-scalar model evaluated at Float with Phi / phi values supplied by scipy (oracle inputs); '
                    'curvature extraction: tolerance tie 2e-4 (finite-difference Hessian), flat clause 2e-4',
                    'coptFORM (SLSQP), numerical Hessian, np.linalg.eig and Gram-Schmidt conditioning are modelled, not verified',
                    'the three closing formulas are REGENERATED from the numpy vector expressions of the source on every run (harness/translate_vec.py -> Gen/VecFormulas.lean), proved equal to the model for every scalar type (Proofs/VecGen.lean) and validated at Float (c12gen)',
                    'Model/SormPipe.lean: executable model of the curvature extraction (normal, lognormal, exponential, uniform, Gumbel, Weibull marginals; exact gradient and Hessian of quadratic limit states handed to the model), compared with mainCurvaturesAtDesignPoint through the eigenvalues of its block at 2e-5; theorems Proofs/C12Pipe.lean, C12Rows.lean are about this model']
    return core.finish(res)


def replay(path):
    d = json.load(open(path))
    f = d.get('failure')
    if not f:
        print('replay file names a broken obligation/tie, no input to replay:', json.dumps(d.get('no_longer_checks'))[:800])
        return 1
    print('recorded:', json.dumps(f, default=str)[:1500])
    return 1
