"""C08 — Miner damage is the linear sum of count/life over the fitted S-N curve (DESIGN §5 C08)"""
import json
import math
import os
import random
import core
import gen

PID = 'C08'
MODULES = ['FFVerif.Proofs.C08', 'FFVerif.Proofs.VecGen']


def enc(pairs):
    return ','.join(f'{gen.bits(a)},{gen.bits(b)}' for a, b in pairs)


def gen_case(rng):
    k = rng.choice([2, 2, 3, 4, 6])
    Ss = sorted(rng.sample(range(50, 900, 10), k))
    if rng.random() < 0.3:
        # replicated specimens: several tests at the same stress level with different lives (the usual form of S-N data), in any order
        Ss = Ss + [rng.choice(Ss) for _ in range(rng.choice([1, 2, 3]))]
        rng.shuffle(Ss)
    a0 = -rng.choice([0.004, 0.01, 0.02])
    b0 = rng.choice([7.0, 9.0, 12.0])
    sn = []
    for S in Ss:
        e = a0 * S + b0 + (rng.uniform(-0.2, 0.2) if rng.random() < 0.7 else 0.0)
        e = max(e, 0.5)            # lives of at least a few cycles: keeps 10**(fit) inside binary64 for every stress level used
        N = 10.0 ** e if rng.random() < 0.7 else float(10 ** max(1, round(e)))
        sn.append((N, float(S)))
    lim = float(rng.choice([40, 100, 200, 300]))
    rows = []
    for _ in range(rng.choice([1, 2, 3, 5, 8])):
        r = rng.random()
        S = lim if r < 0.15 else (lim * rng.uniform(0.2, 1.0) if r < 0.35 else rng.uniform(lim, 1000.0))
        S = float(round(S, 2)) if S != lim else lim
        if r >= 0.35 and rng.random() < 0.15:
            # just off the fatigue limit: a tolerance in the `S <= limit` test would move these rows
            S = rng.choice([math.nextafter(lim, math.inf), lim * (1 + 1e-9), lim * (1 + 1e-6), lim * (1 - 1e-9), lim + 1e-4])
        rows.append((S, rng.choice([0.5, 1.0, 2.0, 10.0, 250.0])))
    if rng.random() < 0.35:
        # the same stress level in several rows (concatenated load blocks)
        for _ in range(rng.choice([1, 2])):
            rows.insert(rng.randrange(len(rows) + 1), (rng.choice(rows)[0], rng.choice([0.5, 1.0, 3.0, 40.0])))
    return sn, lim, rows


def fail(res, clause, case, out):
    res.failures.append({'signature': 'C08:' + clause + ':' + json.dumps(case), 'clause': clause, 'input': case, 'impl_output': out})


def explore(res, rng, n):
    core.import_impl()
    from ffpack import fdm, utils
    reqs, meta = [], []
    keep = []
    for i in range(n):
        try:
            sn, lim, rows = gen_case(rng)
            case = {'sn': sn, 'limit': lim, 'rows': rows}
            if i < 3:
                res.samples.append(case)
            res.evaluations += 1
            res.nontrivial.add(json.dumps(case))
            res.stat('rows_below_or_at_limit' if any(S <= lim for S, _ in rows) else 'rows_all_above')
            if len(set(S for S, _ in rows)) < len(rows):
                res.stat('rows_with_repeated_level')
            if any(S != lim and abs(S - lim) <= 1e-5 * lim for S, _ in rows):
                res.stat('rows_within_1e-5_of_limit')
            # the caller's data as float arrays, reused for every call of this case (they must come back unchanged)
            import numpy as np
            sn_arr = np.array([list(p) for p in sn], dtype=float)
            rows_arr = np.array([list(r) for r in rows], dtype=float)
            use_arr = (i % 3 == 1)
            if i % 9 == 4:
                # single-precision tables (values exactly representable in float32): same damage as the float64 copy
                sn32 = np.array([list(p) for p in sn], dtype=np.float32)
                rows32 = np.array([list(r) for r in rows], dtype=np.float32)
                d32 = float(fdm.minerDamageModelClassic(rows32, sn32, lim))
                d64 = float(fdm.minerDamageModelClassic(rows32.astype(float), sn32.astype(float), lim))
                res.stat('float32_tables')
                if not gen.close(d32, d64, 1e-12, 1e-300):
                    fail(res, 'damage of float32 tables differs from the same numbers in float64', case, [d32, d64])
            SN = (lambda: sn_arr) if use_arr else (lambda: [list(p) for p in sn])
            d = float(fdm.minerDamageModelClassic(rows_arr if use_arr else [list(r) for r in rows], SN(), lim))
            reqs.append(f'miner classic {gen.bits(lim)} {enc(sn)} {enc(rows)}')
            meta.append(('classic', case, d))
            # the same S-N data with other fatigue limits, then the first limit again (one process, one data set)
            for lim2 in (float(rng.choice([40, 100, 200, 300, 500])), lim):
                d2 = float(fdm.minerDamageModelClassic([list(r) for r in rows], SN(), lim2))
                reqs.append(f'miner classic {gen.bits(lim2)} {enc(sn)} {enc(rows)}')
                meta.append(('classic', {'sn': sn, 'limit': lim2, 'rows': rows, 'after_limit': lim}, d2))
                res.stat('second_limit_on_same_data')
            fitter = utils.SnCurveFitter(SN(), fatigueLimit=lim)
            if use_arr:
                res.stat('ndarray_inputs_reused')
                if not (np.array_equal(sn_arr, np.array([list(p) for p in sn], dtype=float)) and
                        np.array_equal(rows_arr, np.array([list(r) for r in rows], dtype=float))):
                    fail(res, 'the input arrays of the caller were modified', case, {'sn_after': sn_arr.tolist()[:3]})
            for S in [lim, lim * 0.5, lim + 1.0, 777.0, math.nextafter(lim, math.inf), lim * (1 + 1e-7), lim * (1 - 1e-7)]:
                v = fitter.getN(S)
                fv = float(v)
                lv = 'sentinel' if v == -1 else (math.log10(fv) if 0 < fv < math.inf else (-math.inf if fv <= 0 else math.inf))
                reqs.append(f'miner logN {gen.bits(lim)} {enc(sn)} {gen.bits(S)}')
                meta.append(('logN', {'sn': sn, 'limit': lim, 'S': S}, lv))
            # ---- consequences on the implementation
            f = lambda rr: float(fdm.minerDamageModelClassic([list(r) for r in rr], SN(), lim))
            rows2 = gen_case(rng)[2]
            if not gen.close(f(rows + rows2), f(rows) + f(rows2), 1e-12, 1e-300):
                fail(res, 'additive over concatenated tables', case, [f(rows + rows2), f(rows), f(rows2)])
            if not gen.close(f([(S, 3 * c) for S, c in rows]), 3 * d, 1e-12):
                fail(res, 'proportional to the counts', case, None)
            sh = rows[:]
            rng.shuffle(sh)
            if not gen.close(f(sh), d, 1e-12):
                fail(res, 'independent of row order', case, [f(sh), d])
            if d < 0:
                fail(res, 'never negative', case, d)
            if f([(S, c) for S, c in rows if S <= lim] or [(lim, 1.0)]) != 0:
                fail(res, 'rows at or below the fatigue limit contribute nothing', case, None)
            # slope of the fitted curve from two public queries (no private attribute is read)
            s_hi = max(S for S, _ in rows) * 1.2 + 1.0
            n_a, n_b = fitter.getN(lim + 1.0), fitter.getN(lim + 1.0 + s_hi)
            a_fit = (-1.0 if (n_a != -1 and n_b != -1 and n_b < n_a) else None)
            # a fitter built for an earlier data set still answers for ITS data after other fitters have been built
            if keep:
                pf_, ps_, pv_ = keep[-1]
                if float(pf_.getN(ps_)) != pv_:
                    fail(res, 'a fitter built earlier changed its curve after another fitter was constructed', {'S': ps_}, [float(pf_.getN(ps_)), pv_])
            keep.append((fitter, lim + 3.0, float(fitter.getN(lim + 3.0))))
            del keep[:-1]
            if a_fit is not None and a_fit < 0:
                up = [(S * 1.1 if j == 0 else S, c) for j, (S, c) in enumerate(rows)]
                if f(up) < d * (1 - 1e-12):
                    fail(res, 'raising a stress level on a falling curve lowers the damage', case, [f(up), d])
            if len(sn) == 2:
                for N, S in sn:
                    if S > lim and not gen.close(float(fitter.getN(S)), N, 1e-9):
                        fail(res, 'two-point S-N data not interpolated exactly', case, [float(fitter.getN(S)), N])
            # naive model
            nrows = [(c, c * rng.choice([1.0, 2.0, 1000.0])) for _, c in rows]
            dn = float(fdm.minerDamageModelNaive([list(r) for r in nrows]))
            reqs.append(f'miner naive {enc(nrows)}')
            meta.append(('naive', {'rows': nrows}, dn))
        except Exception as e:  # noqa
            fail(res, 'valid input raised ' + type(e).__name__ + ': ' + str(e)[:120], {'case_index': i, 'sn': sn, 'limit': lim, 'rows': rows}, None)
    for (kind, case, d), a in zip(meta, core.driver_batch(reqs)):
        res.traces += 1
        if kind == 'logN':
            if (a == 'sentinel') != (d == 'sentinel'):
                fail(res, 'fatigue-limit sentinel (S <= limit, boundary included)', case, [d, a])
            elif a != 'sentinel' and not gen.close(gen.unbits(a), d, 1e-9, 1e-9):
                res.disagreements.append({'what': 'log10 getN vs least-squares model', 'input': case, 'impl': d, 'model': gen.unbits(a)})
        else:
            m = gen.unbits(a)
            if not gen.close(m, d, 1e-8, 1e-300):
                # the model IS the property's formula: a difference is a violation of the property
                fail(res, f'{kind} damage differs from the sum of count/N(S)', case, [d, m])


def run(tier, seed):
    res = core.Result(PID, tier, seed)
    res.rule = ('random S-N data sets (2-6 points, falling log-linear curve with scatter, some exact powers of ten), fatigue limits, '
                'cycle tables with rows below / exactly at / one ulp to 1e-6 off / above the limit, 35% with repeated stress levels; distinct by case')
    import translate_vec
    translate_vec.regenerate(res)      # Gen/VecFormulas.lean from the current source (numpy vector expressions)
    core.prove(res, PID, MODULES, clean=(tier == 'thorough'))
    n = 300 if tier == 'quick' else 10000
    explore(res, random.Random(seed), n)
    if (res.proof_problems or res.disagreements) and not res.failures:
        explore(res, random.Random(seed + 7919), 4 * n)
    res.disagreements_checked = res.traces
    res.trusted += ['hand-written generic-scalar model FF.Miner (accumulation loop, sentinel, closed-form least squares) evaluated at Float '
                    'and compared with the implementation at 1e-8 relative', 'np.polyfit is trusted to return the least-squares line '
                    '(compared with the closed form at 1e-9 on log10 N), np.log10 / np.power as libm']
    return core.finish(res)


def replay(path):
    d = json.load(open(path))
    f = d.get('failure')
    if not f:
        print('replay file names a broken obligation/tie, no input to replay:', json.dumps(d.get('no_longer_checks'))[:800])
        return 1
    print('recorded:', json.dumps(f)[:1200])
    return 1
