"""C18 — analytic wave and wind spectra carry their documented energy and peak (DESIGN §5 C18)"""
import json
import math
import os
import random
import core
import gen

PID = 'C18'
MODULES = ['FFVerif.Proofs.C18', 'FFVerif.Proofs.C18Areas']
EC1 = {0: (0.003, 1), 1: (0.01, 1), 2: (0.05, 2), 3: (0.3, 5), 4: (1.0, 10)}
IEC = {1: (1, 8.1), 2: (0.8, 2.7), 3: (0.5, 0.66)}


def impl():
    core.import_impl()
    from ffpack import lsm
    return lsm


def calls(lsm):
    """generated name -> python callable on the same positional scalars"""
    c = {
        'piersonMoskowitzSpectrum': lambda w, Uw, a, b, g: lsm.piersonMoskowitzSpectrum(w, Uw, a, b, g),
        'jonswapSpectrum': lambda w, wp, a, b, gm, g: lsm.jonswapSpectrum(w, wp, a, b, gm, g),
        'isscSpectrum': lsm.isscSpectrum,
        'gaussianSwellSpectrum': lsm.gaussianSwellSpectrum,
        'ochiHubbleSpectrum': lsm.ochiHubbleSpectrum,
        'davenportDragNorm': lambda n, d, k: lsm.davenportSpectrumWithDragCoef(n, d, k, True),
        'davenportDragDim': lambda n, d, k: lsm.davenportSpectrumWithDragCoef(n, d, k, False),
        'davenportRoughNorm': lambda n, u, z, z0: lsm.davenportSpectrumWithRoughnessLength(n, u, z, z0, True),
        'davenportRoughDim': lambda n, u, z, z0: lsm.davenportSpectrumWithRoughnessLength(n, u, z, z0, False),
        'ec1Norm': lambda n, u, s, z: lsm.ec1Spectrum(n, u, s, z, 0, True),
        'iecNorm': lambda f, v, s, z: lsm.iecSpectrum(f, v, s, z, 1, True),
        'apiSpectrum': lsm.apiSpectrum,
    }
    for t in range(5):
        c[f'ec1Dim{t}'] = (lambda n, u, s, z, t=t: lsm.ec1Spectrum(n, u, s, z, t, False))
    for k in (1, 2, 3):
        c[f'iecDim{k}'] = (lambda f, v, s, z, k=k: lsm.iecSpectrum(f, v, s, z, k, False))
    return c


def pos(rng, lo=0.05, hi=5.0):
    v = round(rng.uniform(lo, hi), rng.choice([1, 2, 3]))
    return v if v >= lo else lo


def sample_args(rng, name):
    if name == 'piersonMoskowitzSpectrum':
        return (pos(rng, 0.1, 3), pos(rng, 5, 30), rng.choice([0.0081, 0.01]), rng.choice([0.74, 1.0]), rng.choice([9.81, 9.81, 32.174, 1.0]))
    if name == 'jonswapSpectrum':
        return (pos(rng, 0.1, 3), pos(rng, 0.3, 1.5), rng.choice([0.0081, 0.0081, 0.012]), rng.choice([1.25, 1.25, 1.0]), rng.choice([1.0, 2.0, 3.3, 5.0]), rng.choice([9.81, 9.81, 32.174, 1.0]))
    if name == 'isscSpectrum':
        return (pos(rng, 0.1, 3), pos(rng, 0.3, 1.5), pos(rng, 0.5, 12))
    if name == 'gaussianSwellSpectrum':
        return (pos(rng, 0.1, 3), pos(rng, 0.3, 1.5), pos(rng, 0.5, 12), pos(rng, 0.01, 0.1))
    if name == 'ochiHubbleSpectrum':
        wp1 = pos(rng, 0.3, 0.8)
        return (pos(rng, 0.1, 3), wp1, wp1 + pos(rng, 0.1, 1.0), pos(rng, 0.5, 8), pos(rng, 0.5, 8), pos(rng, 0.5, 4), pos(rng, 0.5, 4))
    if name.startswith('davenportDrag'):
        return (pos(rng, 0.001, 2), pos(rng, 5, 40), rng.choice([0.005, 0.01, 0.03]))
    if name.startswith('davenportRough'):
        return (pos(rng, 0.001, 2), pos(rng, 5, 40), rng.choice([10.0, 20.0, 50.0, 7.0, 35.0, 90.0, 12.5]), rng.choice([0.03, 0.3]))
    if name.startswith('ec1') or name.startswith('iec'):
        return (pos(rng, 0.001, 2), pos(rng, 5, 40), pos(rng, 0.5, 4), rng.choice([10.0, 30.0, 80.0, 0.5]))
    if name == 'apiSpectrum':
        return (pos(rng, 0.001, 2), pos(rng, 5, 40), rng.choice([10.0, 30.0]))
    raise KeyError(name)


def area(f, lo, hi, peak=None):
    from scipy import integrate
    pts = [peak] if peak else None
    if peak and math.isfinite(hi) is False:
        a, _ = integrate.quad(f, lo, peak, limit=400)
        b, _ = integrate.quad(f, peak, 20 * peak, limit=400)
        c, _ = integrate.quad(f, 20 * peak, math.inf, limit=400)
        return a + b + c
    v, _ = integrate.quad(f, lo, hi, limit=400, points=pts)
    return v


def fail(res, clause, api, args, out):
    res.failures.append({'signature': f'C18:{api}:{clause}:' + ':'.join(repr(a) for a in args), 'clause': clause, 'api': api,
                         'input': list(args), 'impl_output': out})


def narrow_integer_arguments(res, rng, C):
    """whole-number arguments given as narrow numpy integers (int8 / uint8 / int16 / int32 scalars, e.g. a frequency index or a
    height read from an integer array) are real scalars like any other: the value must be the one obtained for the same number as a
    Python float (an intermediate product kept in the narrow type wraps around).  EVERY argument position of every function is tried,
    with its sampled magnitude and with 12, 20, 100, 200, 400 (a square of 12 already leaves int8) wherever the function accepts
    that number as a float"""
    import numpy as np
    import warnings
    for name, f in C.items():
        for rep in range(2):
            args = list(sample_args(rng, name))
            # whole-number version of every argument that admits one (> 0.5), magnitudes as they occur: 1..400
            whole = [float(max(1, round(a))) if isinstance(a, float) and a >= 0.5 else a for a in args]
            if name == 'ochiHubbleSpectrum':
                whole[2] = whole[1] + 1.0
            for k in range(len(whole)):
                if not isinstance(whole[k], float):
                    continue
                for v in ([whole[k]] if whole[k] == int(whole[k]) and whole[k] >= 1 else []) + [float(rng.choice([12, 20, 100, 127, 200, 400]))]:
                    trial = list(whole)
                    trial[k] = v
                    try:
                        with warnings.catch_warnings():
                            warnings.simplefilter('ignore')
                            want = f(*trial)
                    except Exception:  # noqa (not an admissible value for this position)
                        continue
                    if not (want == want and abs(float(want)) < 1e300):
                        continue
                    ty = rng.choice([t for t in (np.int8, np.uint8, np.int16, np.uint16, np.int32) if v <= np.iinfo(t).max])
                    res.evaluations += 1
                    res.stat('narrow_integer_argument')
                    try:
                        with warnings.catch_warnings():
                            warnings.simplefilter('ignore')
                            got = f(*[ty(int(a)) if i == k else a for i, a in enumerate(trial)])
                    except Exception as e:  # noqa
                        fail(res, 'admissible whole-number argument rejected as a narrow numpy integer: ' + type(e).__name__ + ' ' + str(e)[:60], name, tuple(trial) + (k, ty.__name__), None)
                        continue
                    if not gen.close(float(got), float(want), 1e-9, 1e-300):
                        fail(res, 'value changes when a whole-number argument is a narrow numpy integer (%s, argument %d)' % (ty.__name__, k), name, tuple(trial), [float(got), float(want)])


def tiny_frequencies(res, rng, C):
    """small positive frequencies (a grid that starts at 1e-8 'to avoid zero'): every wave spectrum tends to 0 there and must return a
    finite non-negative number, not nan (0 * inf when the power of w underflows and the exponential cut-off does too)"""
    for name, f in C.items():
        if name not in ('piersonMoskowitzSpectrum', 'jonswapSpectrum', 'isscSpectrum', 'gaussianSwellSpectrum', 'ochiHubbleSpectrum'):
            continue
        for _ in range(6):
            args = list(sample_args(rng, name))
            args[0] = rng.choice([1e-3, 1e-5, 1e-8, 1e-12])
            if name == 'ochiHubbleSpectrum':
                args[5], args[6] = rng.choice([(7.0, 10.0), (3.0, 1.5), (10.0, 10.0), (0.8, 2.5)])
            res.evaluations += 1
            res.stat('tiny_positive_frequency')
            try:
                v = f(*args)
            except Exception as e:  # noqa
                fail(res, 'admissible parameters rejected: ' + type(e).__name__ + ' ' + str(e)[:80], name, tuple(args), None)
                continue
            if not (v >= 0) or v == float('inf'):
                fail(res, 'non-negative (finite) at a small positive frequency', name, tuple(args), float(v))


def extreme_frequencies(res, rng, C):
    """every spectrum at positive frequencies of extreme magnitude (1e-300 .. 1e300): the value must be a non-negative number (0, a finite value
    or an overflow to +inf), never nan.  The Davenport forms at a reduced frequency whose square overflows (x = 1200 n / U > 1.3e154)
    return inf / inf = nan: recorded as a known finding under ONE signature (call site `rightPart` of the two Davenport functions, region
    x * x = inf); everything else is reported under its own input"""
    import warnings
    for name, f in sorted(C.items()):
        for _ in range(2):
            base = list(sample_args(rng, name))
            for x in (1e-300, 1e-160, 1e-80, 1e-70, 1e-30, 1e30, 1e80, 1e155, 1e160, 1e300):
                args = [x] + base[1:]
                res.evaluations += 1
                res.stat('extreme_frequency_' + ('tiny' if x < 1 else 'huge'))
                try:
                    with warnings.catch_warnings():
                        warnings.simplefilter('ignore')
                        v = f(*args)
                except Exception as e:  # noqa
                    fail(res, 'admissible parameters rejected: ' + type(e).__name__ + ' ' + str(e)[:80], name, tuple(args), None)
                    continue
                if not (v >= 0):
                    if name.startswith('davenport') and x >= 1e150:
                        res.failures.append({'signature': 'C18:davenport:nan-where-the-squared-reduced-frequency-overflows', 'clause': 'non-negative at an extreme positive frequency',
                                             'api': name, 'input': args, 'impl_output': float(v)})
                    else:
                        fail(res, 'non-negative (not nan) at an extreme positive frequency', name, tuple(args), float(v))


def flags_and_zero_heights(res, rng, lsm):
    """(1) the `normalized` flag as any true / false value (a numpy bool from a comparison, 1 / 0): the result is that of True / False;
    (2) Ochi-Hubble with one significant wave height exactly zero: the area is the other one's Hs^2 / 16 and the value is continuous in Hs"""
    import numpy as np
    for fn, args in (('davenportSpectrumWithDragCoef', (0.02, 20.0, 0.005)), ('davenportSpectrumWithRoughnessLength', (0.02, 20.0, 30.0, 0.03)),
                     ('ec1Spectrum', (0.05, 25.0, 2.0, 30.0, 2)), ('iecSpectrum', (0.05, 15.0, 1.5, 40.0, 2))):
        f = getattr(lsm, fn)
        for truth, variants in ((True, (np.bool_(True), 1, np.array([0.3]) < 1.0)), (False, (np.bool_(False), 0))):
            want = float(f(*args, truth))
            for v in variants:
                v = v[0] if isinstance(v, np.ndarray) else v
                res.evaluations += 1
                res.stat('normalized_flag_not_the_python_singleton')
                try:
                    got = float(f(*args, v))
                except Exception as e:  # noqa
                    fail(res, 'a true / false `normalized` flag of type %s rejected: %s' % (type(v).__name__, repr(e)[:60]), fn, args + (repr(v),), None)
                    continue
                if not gen.close(got, want, 1e-12):
                    fail(res, 'normalized = %r (%s) is not treated as %s' % (v, type(v).__name__, truth), fn, args + (repr(v),), [got, want])
    for (w1, w2, h1, h2, l1, l2) in ((0.4, 0.9, 3.0, 0.0, 2.0, 1.5), (0.3, 0.7, 0.0, 2.0, 3.0, 1.0)):
        res.evaluations += 1
        res.stat('ochi_hubble_one_height_zero')
        a0 = (w1, w2, h1, h2, l1, l2)
        got = area(lambda w: lsm.ochiHubbleSpectrum(w, *a0), 0, math.inf, w1 if h1 else w2)
        want = (h1 * h1 + h2 * h2) / 16
        if abs(got - want) > 1e-6 * want:
            fail(res, 'area', 'ochiHubbleSpectrum', a0, [got, want])
        eps = (w1, w2, h1 or 1e-9, h2 or 1e-9, l1, l2)
        wv = w1 if h1 else w2
        v0, v1 = float(lsm.ochiHubbleSpectrum(wv, *a0)), float(lsm.ochiHubbleSpectrum(wv, *eps))
        if not gen.close(v0, v1, 1e-9):
            fail(res, 'the spectrum jumps when a significant wave height goes from 1e-9 to exactly 0', 'ochiHubbleSpectrum', a0, [v0, v1])


def explore(res, rng, n, areas):
    lsm = impl()
    C = calls(lsm)
    tv = []
    for name, f in C.items():
        for _ in range(n):
            args = sample_args(rng, name)
            tv.append((name, args, (lambda f=f, args=args: f(*args))))
            res.evaluations += 1
            res.nontrivial.add((name, args))
            try:
                v = f(*args)
            except Exception as e:  # noqa
                fail(res, 'admissible parameters rejected: ' + type(e).__name__ + ' ' + str(e)[:80], name, args, None)
                tv.pop()
                continue
            if not (v >= 0):
                fail(res, 'non-negative', name, args, v)
            if _ % 10 == 3:
                # the same numbers as numpy scalars (float32 values are chosen exactly representable)
                import numpy as np
                a32 = tuple(float(np.float32(a)) if isinstance(a, float) else a for a in args)
                try:
                    v64 = f(*a32)
                    vnp = f(*[np.float32(a) if isinstance(a, float) else (np.int64(a) if isinstance(a, int) and not isinstance(a, bool) else a) for a in a32])
                    if not gen.close(float(vnp), float(v64), 1e-4, 1e-30):
                        fail(res, 'value changes when the arguments are numpy scalars', name, a32, [float(vnp), float(v64)])
                    res.stat('numpy_scalar_arguments')
                except Exception as e:  # noqa
                    fail(res, 'admissible parameters rejected when passed as numpy scalars: ' + type(e).__name__ + ' ' + str(e)[:60], name, a32, None)
    narrow_integer_arguments(res, rng, C)
    tiny_frequencies(res, rng, C)
    extreme_frequencies(res, rng, C)
    flags_and_zero_heights(res, rng, lsm)
    gen.validate(res, 'Wave', [c for c in tv if c[0] in ('piersonMoskowitzSpectrum', 'jonswapSpectrum', 'isscSpectrum',
                                                          'gaussianSwellSpectrum', 'ochiHubbleSpectrum')], rtol=1e-9)
    gen.validate(res, 'Wind', [c for c in tv if c[0] not in ('piersonMoskowitzSpectrum', 'jonswapSpectrum', 'isscSpectrum',
                                                              'gaussianSwellSpectrum', 'ochiHubbleSpectrum')], rtol=1e-9)
    res.samples += [{'fn': nm, 'args': list(a)} for nm, a, _ in tv[:3]]
    # ---- areas (numerical quadrature of the implementation: the failing-input search)
    for _ in range(areas):
        try:
            wp, Hs, sg = pos(rng, 0.3, 1.5), pos(rng, 0.5, 12), pos(rng, 0.02, 0.1)
            checks = [
                ('isscSpectrum', (wp, Hs), area(lambda w: lsm.isscSpectrum(w, wp, Hs), 0, math.inf, wp), Hs * Hs / 16),
                ('gaussianSwellSpectrum', (wp, Hs, sg), area(lambda w: lsm.gaussianSwellSpectrum(w, wp, Hs, sg), wp - 60 * sg * 2 * math.pi,
                                                          wp + 60 * sg * 2 * math.pi, wp), Hs * Hs / 16),
            ]
            Uw, al, be, g = pos(rng, 5, 30), rng.choice([0.0081, 0.01]), rng.choice([0.74, 1.0]), 9.81
            checks.append(('piersonMoskowitzSpectrum', (Uw, al, be), area(lambda w: lsm.piersonMoskowitzSpectrum(w, Uw, al, be, g), 0, math.inf, g / Uw),
                           al * g * g / (4 * be) * (Uw / g) ** 4))
            a = sample_args(rng, 'ochiHubbleSpectrum')[1:]
            checks.append(('ochiHubbleSpectrum', a, area(lambda w: lsm.ochiHubbleSpectrum(w, *a), 0, math.inf, a[0]), (a[2] ** 2 + a[3] ** 2) / 16))
            # a long swell under a young wind sea: peak frequencies a factor 4.5 .. 7 apart (around the swell peak the cut-off of the wind-sea
            # component has underflowed: that component is 0 there, the other one is not)
            w1 = rng.choice([0.3, 0.35, 0.25])
            a2 = (w1, round(w1 * rng.choice([4.5, 5.0, 6.0, 7.0]), 3), pos(rng, 1, 6), pos(rng, 1, 6), pos(rng, 1, 4), pos(rng, 0.8, 3))
            checks.append(('ochiHubbleSpectrum', a2, area(lambda w: lsm.ochiHubbleSpectrum(w, *a2), 0, math.inf, a2[0]), (a2[2] ** 2 + a2[3] ** 2) / 16))
            res.stat('ochi_hubble_widely_separated_peaks')
            d1, kp = pos(rng, 5, 40), rng.choice([0.005, 0.02])
            checks.append(('davenportDragDim', (d1, kp), area(lambda x: lsm.davenportSpectrumWithDragCoef(x, d1, kp, False), 0, math.inf, d1 / 1200),
                           6 * kp * d1 * d1))
            uz, z, z0 = pos(rng, 5, 40), rng.choice([10.0, 30.0, 7.0, 90.0, 12.5]), rng.choice([0.03, 0.3])
            uf = 0.4 * uz / math.log(z / z0)
            checks.append(('davenportRoughDim', (uz, z, z0), area(lambda x: lsm.davenportSpectrumWithRoughnessLength(x, uz, z, z0, False), 0, math.inf, uz / 1200),
                           6 * uf * uf))
            sig, zz, t, k = pos(rng, 0.5, 4), rng.choice([10.0, 30.0, 80.0]), rng.randrange(5), rng.choice([1, 2, 3])
            checks.append((f'ec1Dim{t}', (uz, sig, zz), area(lambda x: lsm.ec1Spectrum(x, uz, sig, zz, t, False), 0, math.inf, 0.01), sig * sig))
            checks.append((f'iecDim{k}', (uz, sig, zz), area(lambda x: lsm.iecSpectrum(x, uz, sig, zz, k, False), 0, math.inf, 0.01), (IEC[k][0] * sig) ** 2))
            for api, args, got, want in checks:
                res.evaluations += 1
                res.stat('area_' + api)
                if not gen.close(got, want, 2e-5):
                    fail(res, 'area', api, args, [got, want])
            # ---- peaks and the JONSWAP factor
            for w in [wp * r for r in (0.3, 0.7, 0.9, 0.99, 1.01, 1.1, 1.5, 3.0)]:
                if lsm.isscSpectrum(w, wp, Hs) > lsm.isscSpectrum(wp, wp, Hs) * (1 + 1e-12):
                    fail(res, 'peak', 'isscSpectrum', (w, wp, Hs), None)
                if lsm.gaussianSwellSpectrum(w, wp, Hs, sg) > lsm.gaussianSwellSpectrum(wp, wp, Hs, sg) * (1 + 1e-12):
                    fail(res, 'peak', 'gaussianSwellSpectrum', (w, wp, Hs, sg), None)
                gm = rng.choice([1.0, 2.0, 3.3, 6.0])
                gg = rng.choice([9.81, 9.81, 32.174, 1.0, 3.7])          # gravity in other units / on other planets
                j, j1, jp = (lsm.jonswapSpectrum(w, wp, 0.0081, 1.25, gm, gg), lsm.jonswapSpectrum(w, wp, 0.0081, 1.25, 1.0, gg),
                             lsm.jonswapSpectrum(wp, wp, 0.0081, 1.25, gm, gg))
                res.evaluations += 1
                if j > jp * (1 + 1e-12):
                    fail(res, 'peak', 'jonswapSpectrum', (w, wp, gm, gg), [j, jp])
                if not gen.close(j / lsm.jonswapSpectrum(w, wp, 0.0081, 1.25, gm, 9.81), (gg / 9.81) ** 2, 1e-12):
                    fail(res, 'g-squared', 'jonswapSpectrum', (w, wp, gm, gg), [j, lsm.jonswapSpectrum(w, wp, 0.0081, 1.25, gm, 9.81)])
                if not (1 - 1e-12 <= j / j1 <= gm * (1 + 1e-12)):
                    fail(res, 'gamma-factor', 'jonswapSpectrum', (w, wp, gm), j / j1)
            gmp = 3.3
            if not gen.close(lsm.jonswapSpectrum(wp, wp, 0.0081, 1.25, gmp, 9.81) / lsm.jonswapSpectrum(wp, wp, 0.0081, 1.25, 1.0, 9.81), gmp, 1e-12):
                fail(res, 'gamma-factor-at-peak', 'jonswapSpectrum', (wp,), None)
            # ---- normalised = f * S(f) / scale at the reduced frequency
            nf = pos(rng, 0.001, 2)
            z0e, zmin = EC1[t]
            lz = 300 * (max(zz, zmin) / 200) ** (0.67 + 0.05 * math.log(z0e))
            lam = 42 if zz >= 60 else 0.7 * zz
            rel = [('davenportDrag', lsm.davenportSpectrumWithDragCoef(10 * nf / d1, d1, kp, True), nf * lsm.davenportSpectrumWithDragCoef(nf, d1, kp, False) / (kp * d1 * d1)),
                   ('davenportRough', lsm.davenportSpectrumWithRoughnessLength(nf * z / uz, uz, z, z0, True), nf * lsm.davenportSpectrumWithRoughnessLength(nf, uz, z, z0, False) / (uf * uf)),
                   (f'ec1:{t}', lsm.ec1Spectrum(nf * lz / uz, uz, sig, zz, t, True), nf * lsm.ec1Spectrum(nf, uz, sig, zz, t, False) / (sig * sig)),
                   (f'iec:{k}', lsm.iecSpectrum(nf * IEC[k][1] * lam / uz, uz, sig, zz, k, True), nf * lsm.iecSpectrum(nf, uz, sig, zz, k, False) / (IEC[k][0] * sig) ** 2)]
            for api, a1, a2 in rel:
                res.evaluations += 1
                if not gen.close(a1, a2, 1e-10):
                    fail(res, 'normalised-vs-dimensional', api, (nf, d1, kp, uz, z, z0, sig, zz), [a1, a2])

        except Exception as e:  # noqa
            fail(res, 'admissible parameters rejected: ' + type(e).__name__ + ' ' + str(e)[:120], 'spectrum function (areas / peaks / normalisation block)', (), None)

def run(tier, seed):
    res = core.Result(PID, tier, seed)
    res.rule = ('random admissible parameters for the ten spectrum functions (21 translated variants: normalised / dimensional, terrain '
                'categories, turbulence components); areas by adaptive quadrature of the implementation; distinct by (function, arguments)')
    gen.regenerate(res, ['Wave', 'Wind'])
    core.prove(res, PID, MODULES, clean=(tier == 'thorough'))
    n, areas = (40, 6) if tier == 'quick' else (2000, 150)
    explore(res, random.Random(seed), n, areas)
    if (res.proof_problems or res.disagreements) and not res.failures:
        explore(res, random.Random(seed + 7919), 4 * n, 4 * areas)
    res.disagreements_checked = res.traces
    res.trusted += ['harness/translate.py validated each run at Float against the Python functions (1e-9 relative; Gamma by a Lanczos '
                    'approximation in the Float instance only)', 'scipy.integrate.quad is used only in the failing-input search']
    return core.finish(res)


def replay(path):
    d = json.load(open(path))
    f = d.get('failure')
    if not f:
        print('replay file names a broken obligation/tie, no input to replay:', json.dumps(d.get('no_longer_checks'))[:800])
        return 1
    print('recorded:', json.dumps(f)[:800])
    return 1
