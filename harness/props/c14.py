"""C14 — Metropolis-Hastings samplers: decision rule, support, negative densities (DESIGN §5 C14)"""
import json
import os
import random
from fractions import Fraction
from unittest import mock
import core

PID = 'C14'
MODULES = ['FFVerif.Proofs.C14', 'FFVerif.Proofs.C14Balance', 'FFVerif.Proofs.C14Continuous', 'FFVerif.Proofs.C14Uniform']


def fail(res, clause, api, case, out, sig=None):
    res.failures.append({'signature': sig or f'C14:{api}:{clause}:' + json.dumps(case), 'clause': clause, 'api': api,
                         'input': case, 'impl_output': out})


def explore(res, rng, n):
    core.import_impl()
    import numpy as np
    from ffpack import rpm
    reqs, meta = [], []
    for i in range(n):
        # ---- plain sampler on an integer lattice, target = table of integer weights (ratios exact)
        d = rng.choice([1, 2, 3])
        weights = {}
        # un-normalised targets of any magnitude (a likelihood of 100 observations is ~1e-70): the table times an exact power of two, the
        # ratios - all the rule looks at - are unchanged
        sc = rng.choice([1.0, 1.0, 1.0, 2.0 ** -100, 2.0 ** -400, 2.0 ** 300, 2.0 ** -60])
        res.stat('mh_density_scale_' + ('1' if sc == 1.0 else 'tiny' if sc < 1 else 'huge'))
        # the lattice has step h (1, 1/2 or 1/4: exact in binary64); states are carried as lattice indices, the sampler sees index * h.  A start
        # point with integral coordinates may be handed over as Python ints or an integer array: the chain still moves on the h-lattice
        h = rng.choice([1.0, 1.0, 0.5, 0.25])
        # … and the lattice may be tiny (step 2^-40: moves of 1e-12) or sit on a large offset (2^20 + k: moves of 1e-6 of the state): a move is a
        # move whatever its size relative to the state
        off = 0.0
        if i % 5 == 2:
            h = 2.0 ** -40
            res.stat('mh_tiny_lattice')
        elif i % 5 == 4:
            off = rng.choice([2.0 ** 20, -2.0 ** 22])
            res.stat('mh_lattice_on_a_large_offset')
        def f(x, weights=weights, sc=sc, h=h, off=off):
            key = tuple(int(round((float(v) - off) / h)) for v in np.atleast_1d(x))
            if key not in weights:
                weights[key] = rng.choice([0, 0, 1, 2, 3, 4, 8, 5])
            return float(weights[key]) * sc
        mult = rng.choice([1, int(1 / h)]) if h >= 0.25 else 1
        cur = [rng.randint(-2, 2) * mult for _ in range(d)]
        weights[tuple(cur)] = rng.choice([1, 2, 4, 8, 3])          # the chain starts in the support
        lim = rng.choice([1, 2, 5])
        sv = [off + v * h for v in cur]
        integral = all(float(v).is_integer() for v in sv)
        hd = h if h >= 0.25 else 1.0                                # (the domain bound is in units of the nominal lattice)
        dom = lambda c, nx, lim=lim, off=off, h=h, hd=hd: bool(np.all(np.abs((np.asarray(nx, dtype=float) - off) / h * hd) <= lim))
        cands, us = [], []
        prop = lambda c: cands[-1]
        if i % 3 == 0:
            start = np.array(sv, dtype=float)
        elif integral and i % 3 == 1:
            start = [int(v) for v in sv] if rng.random() < 0.6 else np.array([int(v) for v in sv])
            res.stat('mh_integer_start_h_%g' % h)
        else:
            start = list(map(float, sv))
        # an integer randomSeed re-seeds numpy's global generator, nothing else: the acceptance draw is still THE uniform draw of that generator
        # (scripted below); a sampler that draws from a generator of its own would not see it
        seed_kw = {'randomSeed': rng.choice([0, 7, 12345])} if i % 4 == 1 else {}
        if seed_kw:
            res.stat('mh_sampler_with_integer_seed')
        s = rpm.MetropolisHastingsSampler(initialVal=start, targetPdf=f, proposalCSampler=prop, sampleDomain=dom, **seed_kw)
        state = list(cur)
        for step in range(rng.choice([1, 3, 6])):
            cand = [v + rng.choice([-1, 0, 1, 2]) for v in state]
            cands.append([off + c * h for c in cand])
            uden = rng.choice([2, 4, 8, 16])
            unum = rng.choice([0, 0, 1, uden // 2, uden - 1, uden]) if rng.random() < 0.6 else rng.randrange(uden + 1)
            u = unum / uden
            fcur, fcand = int(f(off + np.array(state) * h) / sc), int(f(off + np.array(cand) * h) / sc)
            if fcur == 0:
                break
            try:
                with mock.patch.object(np.random, 'uniform', side_effect=lambda *a, **k: u):
                    out = s.getSample()
            except Exception as e:  # noqa
                fail(res, 'step raised %s on non-negative densities: %s' % (type(e).__name__, str(e)[:80]), 'MetropolisHastingsSampler.getSample',
                     {'cur': state, 'cand': cand, 'h': h, 'offset': off, 'u': [unum, uden], 'fcur': fcur, 'fcand': fcand, 'limit': lim}, None)
                break
            res.evaluations += 1
            if isinstance(start, np.ndarray) and [float(v) for v in start] != sv:
                fail(res, 'the start-point array of the caller was modified by the chain', 'MetropolisHastingsSampler.getSample',
                     {'start': sv, 'cand': cand, 'h': h, 'u': [unum, uden]}, start.tolist())
                start = np.array(sv, dtype=float)
            res.nontrivial.add(('mh', tuple(state), tuple(cand), unum, uden, fcur, fcand))
            res.stat('mh_accept_region' if Fraction(unum, uden) <= Fraction(fcand, fcur) else 'mh_reject_region')
            res.stat('mh_domain_%s' % ('in' if dom(None, off + np.array(cand) * h) else 'out'))
            new = [(float(v) - off) / h for v in out]
            case = {'cur': state, 'cand': cand, 'h': h, 'offset': off, 'start_type': type(start).__name__ + ':' + type(start[0]).__name__, 'u': [unum, uden],
                    'fcur': fcur, 'fcand': fcand, 'limit': lim}
            reqs.append(f'mh {fcur} {fcand} {unum} {uden} {int(dom(None, off + np.array(cand) * h))} {int(dom(None, off + np.array(state) * h))}')
            if not all(v.is_integer() for v in new):
                fail(res, 'the chain moved to a point that is neither the current point nor the candidate', 'MetropolisHastingsSampler.getSample', case,
                     [float(v) for v in out])
                reqs.pop()
                break
            new = [int(v) for v in new]
            meta.append(('mh', case, new))
            # never leaves the support
            if fcur > 0 and f(off + np.array(new) * h) == 0:
                sig = 'C14:support:u=0:zero-density-candidate' if unum == 0 and fcand == 0 else None
                fail(res, 'chain left the support of the target', 'MetropolisHastingsSampler.getSample', case, new, sig)
            state = new
        # ---- component-wise sampler
        d = rng.choice([1, 2, 3, 4])
        tabs = [dict() for _ in range(d)]
        scs = [rng.choice([1.0, 1.0, 1.0, 2.0 ** -100, 2.0 ** -400, 2.0 ** 200]) for _ in range(d)]
        h = rng.choice([1.0, 1.0, 0.5, 0.25])
        offa = 0.0
        if i % 5 == 3:
            h = 2.0 ** -40
            res.stat('au_tiny_lattice')
        elif i % 5 == 0:
            offa = rng.choice([2.0 ** 20, -2.0 ** 22])
            res.stat('au_lattice_on_a_large_offset')
        hda = h if h >= 0.25 else 1.0
        def mk(j, h=h, offa=offa):
            def fj(x):
                key = int(round((float(np.asarray(x)) - offa) / h))
                if key not in tabs[j]:
                    tabs[j][key] = rng.choice([0, 1, 2, 4, 8, 3])
                return float(tabs[j][key]) * scs[j]
            return fj
        fs = [mk(j) for j in range(d)]
        mult = rng.choice([1, int(1 / h)]) if h >= 0.25 else 1
        cur = [rng.randint(-2, 2) * mult for _ in range(d)]
        for j in range(d):
            tabs[j][cur[j]] = rng.choice([1, 2, 4, 8])
        lim = rng.choice([2, 4, 9])
        dom = lambda c, nx, lim=lim, h=h, offa=offa, hda=hda: bool(np.sum(np.abs((np.asarray(nx, dtype=float) - offa) / h * hda)) <= lim)
        cand = list(cur)
        props = [(lambda c, j=j, h=h, offa=offa: offa + float(cand[j]) * h) for j in range(d)]
        sv = [offa + v * h for v in cur]
        if all(float(v).is_integer() for v in sv) and i % 3 == 1:
            start = [int(v) for v in sv]                        # (the component-wise sampler takes lists only)
            res.stat('au_integer_start_h_%g' % h)
        else:
            start = list(map(float, sv))
        s = rpm.AuModifiedMHSampler(initialVal=start, targetPdf=fs, proposalCSampler=props, sampleDomain=dom,
                                    **({'randomSeed': rng.choice([0, 3, 99])} if i % 4 == 2 else {}))
        # a chain of steps on ONE sampler object (scratch buffers persist between steps)
        for step in range(rng.choice([1, 2, 4, 6])):
            cand[:] = [v + rng.choice([-1, 1, 2, 0, 3]) for v in cur]
            uds = [rng.choice([2, 4, 8]) for _ in range(d)]
            uns = [rng.choice([0, ud, rng.randrange(ud + 1), rng.randrange(ud + 1)]) for ud in uds]
            it = iter([un / ud for un, ud in zip(uns, uds)])
            fcur = [int(fs[j](offa + cur[j] * h) / scs[j]) for j in range(d)]
            fcand = [int(fs[j](offa + cand[j] * h) / scs[j]) for j in range(d)]
            if any(v == 0 for v in fcur):
                break
            try:
                with mock.patch.object(np.random, 'uniform', side_effect=lambda *a, **k: next(it)):
                    out = s.getSample()
            except Exception as e:  # noqa
                fail(res, 'step raised %s on non-negative densities: %s' % (type(e).__name__, str(e)[:80]), 'AuModifiedMHSampler.getSample',
                     {'cur': list(cur), 'cand': list(cand), 'h': h, 'u': list(zip(uns, uds)), 'fcur': fcur, 'fcand': fcand, 'limit': lim, 'step': step}, None)
                break
            res.evaluations += 1
            res.nontrivial.add(('au', tuple(cur), tuple(cand), tuple(uns), tuple(uds)))
            res.stat('au_step_%d' % min(step, 3))
            case = {'cur': list(cur), 'cand': list(cand), 'h': h, 'hd': hda, 'offset': offa, 'start_type': type(start).__name__ + ':' + type(start[0]).__name__,
                    'u': list(zip(uns, uds)), 'fcur': fcur, 'fcand': fcand, 'limit': lim, 'step': step}
            new = [(float(v) - offa) / h for v in out]
            if not all(v.is_integer() for v in new):
                fail(res, 'the chain moved to a point whose coordinates are neither the current nor the proposed ones', 'AuModifiedMHSampler.getSample',
                     case, [float(v) for v in out])
                break
            if isinstance(start, np.ndarray) and [float(v) for v in start] != sv:
                fail(res, 'the start-point array of the caller was modified by the chain', 'AuModifiedMHSampler.getSample', case, start.tolist())
                break
            reqs.append('auflags ' + ','.join(map(str, fcur)) + ' ' + ','.join(map(str, fcand)) + ' ' + ','.join(map(str, uns)) + ' ' + ','.join(map(str, uds)))
            meta.append(('au', case, [int(v) for v in new]))
            cur = [int(v) for v in new]
        if i < 3:
            res.samples.append(case)
    for (kind, case, new), a in zip(meta, core.driver_batch(reqs)):
        res.traces += 1
        if kind == 'mh':
            want = case['cand'] if a == 'cand' else case['cur']
            if a == 'error' or new != want:
                fail(res, 'step differs from the rule (move iff u <= ratio and the move stays in the domain)',
                     'MetropolisHastingsSampler.getSample', case, {'impl': new, 'rule': a})
        else:
            if a.startswith('error'):
                fail(res, 'model rejected a non-negative density', 'AuModifiedMHSampler.getSample', case, a)
                continue
            flags = [] if a == '-' else [int(x) for x in a.split(',')]
            nxt = [c if fl else k for fl, c, k in zip(flags, case['cand'], case['cur'])]
            inside = sum(abs(v) for v in nxt) * case['hd'] <= case['limit']
            want = nxt if inside else case['cur']
            if new != want:
                fail(res, 'component-wise step differs from the rule (per-coordinate accept, one domain test on the assembled candidate)',
                     'AuModifiedMHSampler.getSample', case, {'impl': new, 'rule': want})
    # ---- negative densities are rejected with an error: at the current point, at the candidate, at both
    for where in ('both', 'current', 'candidate'):
        neg = (lambda x, where=where: -1.0 if (where == 'both' or (where == 'current') == (float(np.atleast_1d(x)[0]) < 0.5)) else 2.0)
        for cls, kw in [(rpm.MetropolisHastingsSampler, dict(initialVal=[0.0], targetPdf=neg, proposalCSampler=lambda c: np.asarray(c) + 1.0)),
                        (rpm.AuModifiedMHSampler, dict(initialVal=[0.0, 0.0], targetPdf=[lambda x: 1.0, neg],
                                                       proposalCSampler=[lambda c: c + 1.0, lambda c: c + 1.0]))]:
            res.evaluations += 1
            try:
                out = cls(**kw).getSample()
                fail(res, 'negative density accepted (negative at: %s)' % where, cls.__name__ + '.getSample', {'negative_at': where}, repr(out))
            except ValueError:
                res.stat('negative_density_rejected_' + where)


def undefined_ratio_and_two_samplers(res):
    """(1) a ratio that is not a number (a hand-written density that evaluates to nan outside its support, or 0 / 0 for numpy floats when a
    chain was started on a zero-density point): `u <= ratio` is false, the chain stays put - in particular it does not leave the support;
    (2) two live samplers with different keyword arguments for their domain functions: each step is tested against the sampler's OWN domain"""
    import warnings
    import numpy as np
    core.import_impl()
    from ffpack import rpm
    semicircle = lambda x: np.sqrt(1.0 - float(np.atleast_1d(x)[0]) ** 2)          # nan outside [-1, 1]
    zero_outside = lambda x: np.float64(1.0) if abs(float(np.atleast_1d(x)[0])) <= 1 else np.float64(0.0)
    for label, f, start, cand, must_stay in (('density nan at the candidate', semicircle, [0.5], [1.5], True),
                                             ('0 / 0 (numpy floats): started outside the support, candidate outside', zero_outside, [2.0], [3.0], True),
                                             ('density nan at the candidate (far)', semicircle, [-0.25], [-7.0], True)):
        for u in (0.0, 0.3, 0.999):
            res.evaluations += 1
            res.stat('ratio_not_a_number')
            s = rpm.MetropolisHastingsSampler(initialVal=list(start), targetPdf=f, proposalCSampler=lambda c, cand=cand: np.array(cand, dtype=float))
            case = {'case': label, 'cur': start, 'cand': cand, 'u': u}
            try:
                with warnings.catch_warnings():
                    warnings.simplefilter('ignore')
                    with mock.patch.object(np.random, 'uniform', side_effect=lambda *a, **k: u):
                        out = [float(v) for v in s.getSample()]
            except ValueError:
                continue            # (rejecting such a density with an error is admissible)
            except Exception as e:  # noqa
                fail(res, 'step raised %s when the acceptance ratio is not a number' % type(e).__name__, 'MetropolisHastingsSampler.getSample', case, None)
                continue
            if must_stay and out != [float(v) for v in start]:
                fail(res, 'the chain moved although the acceptance ratio is not a number (u <= ratio is false)', 'MetropolisHastingsSampler.getSample', case, out)
    # ---- two samplers alive at the same time, different domain keywords
    disc = lambda cur, nxt, radius: bool(float(np.sum(np.square(nxt))) <= radius * radius)
    dens = [lambda x: 1.0, lambda x: 1.0]
    candA, candB = [[0.0, 0.0]], [[0.0, 0.0]]
    A = rpm.AuModifiedMHSampler(initialVal=[0.0, 0.0], targetPdf=dens, proposalCSampler=[lambda c: candA[0][0], lambda c: candA[0][1]], sampleDomain=disc, radius=1.0)
    B = rpm.AuModifiedMHSampler(initialVal=[0.0, 0.0], targetPdf=dens, proposalCSampler=[lambda c: candB[0][0], lambda c: candB[0][1]], sampleDomain=disc, radius=6.0)
    curA, curB = [0.0, 0.0], [0.0, 0.0]
    for k, (ca, cb) in enumerate((([0.5, 0.5], [3.0, 3.0]), ([2.0, 1.0], [4.0, -4.0]), ([0.6, -0.7], [7.0, 1.0]), ([3.0, 3.0], [-2.0, 5.0]))):
        candA[0], candB[0] = ca, cb
        with mock.patch.object(np.random, 'uniform', side_effect=lambda *a, **k2: 0.5):
            outA = [float(v) for v in A.getSample()]
            outB = [float(v) for v in B.getSample()]
        wantA = ca if ca[0] ** 2 + ca[1] ** 2 <= 1.0 else curA
        wantB = cb if cb[0] ** 2 + cb[1] ** 2 <= 36.0 else curB
        res.evaluations += 2
        res.stat('two_live_samplers_with_their_own_domain_keywords')
        if outA != wantA or outB != wantB:
            fail(res, 'a sampler built with domain keyword radius = 1 (another one with radius = 6 alive) does not apply its own domain', 'AuModifiedMHSampler.getSample',
                 {'step': k, 'candidate_A': ca, 'candidate_B': cb, 'cur_A': curA, 'cur_B': curB}, {'A': outA, 'expected_A': wantA, 'B': outB, 'expected_B': wantB})
        curA, curB = outA, outB


def run(tier, seed):
    res = core.Result(PID, tier, seed)
    res.rule = ('scripted proposals and uniform draws (k/2^m incl. 0 and 1) on integer lattices with integer-valued target tables (exact '
                'ratios, zero-density states), box / L1 domains, 1-4 dimensions, chains of 1-6 steps on one sampler object for both samplers; densities negative at the current point / candidate / both; distinct by (state, candidate, draw, densities)')
    core.prove(res, PID, MODULES, clean=(tier == 'thorough'))
    n = 400 if tier == 'quick' else 20000
    explore(res, random.Random(seed), n)
    undefined_ratio_and_two_samplers(res)
    if (res.proof_problems or res.disagreements) and not [f for f in res.failures if 'u=0' not in f['signature']]:
        pass
    res.disagreements_checked = res.traces
    res.trusted += ['hand-written models FF.Sampler.mhStep / auAssemble of the two getSample bodies, tied by trace validation: '
                    'np.random.uniform, the proposal, the target and the domain test are scripted / observed from outside',
                    'detailed balance is proved for the induced kernels on finite state spaces (C14Balance) and, in integral form over product sets, for the move part of the kernel on any sigma-finite state space (C14Continuous); the step from the rule theorems to the kernel is C14Uniform: the Lebesgue measure of the draws in [0, 1) on which the rule accepts is min(1, ratio), and the kernel entries are proposal x that measure x domain test; that numpy draws uniformly on [0, 1) is assumed']
    return core.finish(res)


def replay(path):
    d = json.load(open(path))
    f = d.get('failure')
    if not f:
        print('replay file names a broken obligation/tie, no input to replay:', json.dumps(d.get('no_longer_checks'))[:800])
        return 1
    print('recorded:', json.dumps(f)[:1200])
    return 1
