"""C05 — level-crossing and peak counts equal the true crossings and extrema (DESIGN §5 C05)"""
import json
import os
import random
import core
from core import enc_list, to_grid, OffGrid

PID = 'C05'
MODULES = ['FFVerif.Proofs.C05']


def enc_itable(t):
    return ','.join(f'{k}:{u}' for k, u in t) if t else '-'


def gen_case(rng):
    s = rng.choice([0, 0, 1, 2, 3, 24, 30])
    unit = 1 << s
    n = rng.choice([2, 3, 4, 5, 6, 8, 10, 15, 25])
    span = rng.choice([1, 2, 3, 5])
    style = rng.random()
    if s >= 24:
        # near ties: samples one or two grid steps (2^-24 .. 2^-30 of a level spacing) off a level, so that a
        # tolerance in any `==` / `<` of the implementation changes the answer while exact arithmetic does not
        h = [rng.randint(-span, span) * unit + rng.choice([0, 0, 1, -1, 1, -1, 2, -3, unit // 2]) for _ in range(n)]
    elif style < 0.5:
        h = [rng.randint(-span * unit, span * unit) for _ in range(n)]
    elif style < 0.8:
        h = [rng.randint(-span, span) * unit + rng.choice([0, 0, 1, -1]) * (unit // 2) for _ in range(n)]
    else:
        h = [rng.choice([-1, 0, 1, 2]) * unit for _ in range(n)]
    if 1 <= s <= 3 and rng.random() < 0.3:
        h = [v - v % unit for v in h]          # integer-valued history, levels may still be fractional
    if rng.random() < 0.3:
        out = []
        for a in h:
            out.append(a)
            if rng.random() < 0.25:
                out.append(a)
        h = out
    r = rng.random()
    if r < 0.3:
        ref = 0
    elif r < 0.4:
        ref = rng.choice([-100, 100]) * unit
    elif r < 0.6:
        ref = rng.choice(h)
    elif s >= 24:
        ref = rng.randint(-span, span) * unit + rng.choice([0, 1, -1])
    else:
        ref = rng.randint(-span * unit, span * unit)
    r = rng.random()
    if r < 0.45:
        levels = None
    else:
        k = rng.choice([1, 2, 3, 5, 8])
        levels = [rng.randint(-span * unit - unit, span * unit + unit) for _ in range(k)]
        if s >= 24:
            levels = [rng.randint(-span - 1, span + 1) * unit + rng.choice([0, 0, 0, 1, -1]) for _ in range(k)]
        if rng.random() < 0.3:
            levels += levels[:2]          # duplicates, unsorted
    return h, s, ref, levels


def run_level(h, s, ref, levels):
    core.import_impl()
    from ffpack import lcc
    import cyc
    data = [k * 2.0 ** -s for k in h]
    kw = dict(refLevel=ref * 2.0 ** -s)
    if levels is not None:
        kw['levels'] = [k * 2.0 ** -s for k in levels]
    if s >= 1 and levels is not None and (sum(h) + len(levels)) % 3 == 0 and all(v % (1 << s) == 0 for v in h):
        # an integer-valued history handed over as Python ints / an int64 array together with fractional levels
        import numpy as np
        data = [v >> s for v in h] if sum(h) % 2 else np.array([v >> s for v in h], dtype=np.int64)
    forced = FORCE_DTYPE.get(tuple(h))
    if forced is not None and s == 0:
        import numpy as np
        data = np.array(h, dtype=forced)
    try:
        seq = lcc.astmLevelCrossingCounting(cyc.as_container(data, h, s) if isinstance(data, list) and isinstance(data[0], float) else data, aggregate=False, **kw)
        agg = lcc.astmLevelCrossingCounting(data if forced is not None else list(data), aggregate=True, **kw)
    except ValueError:
        return {'error': 'ValueError'}
    except Exception as e:  # noqa
        return {'error': 'other:' + type(e).__name__}
    try:
        if agg == [[]]:
            agg = []
        return {'seq': [to_grid(v, s) for v in seq], 'table': [(to_grid(k, s), int(c)) for k, c in agg]}
    except (OffGrid, TypeError, ValueError) as e:
        return {'error': 'offgrid:' + str(e)}


def run_peak(h, s, ref):
    core.import_impl()
    from ffpack import lcc
    import cyc
    data = [k * 2.0 ** -s for k in h]
    try:
        seq = lcc.astmPeakCounting(cyc.as_container(data, h, s), refLevel=ref * 2.0 ** -s, aggregate=False)
        agg = lcc.astmPeakCounting(list(data), refLevel=ref * 2.0 ** -s, aggregate=True)
    except ValueError:
        return {'error': 'ValueError'}
    except Exception as e:  # noqa
        return {'error': 'other:' + type(e).__name__}
    try:
        if agg == [[]]:
            agg = []
        return {'seq': [to_grid(v, s) for v in seq], 'table': [(to_grid(k, s), int(c)) for k, c in agg]}
    except (OffGrid, TypeError, ValueError) as e:
        return {'error': 'offgrid:' + str(e)}


def line(out):
    if 'error' in out:
        return 'error:' + out['error']
    return enc_list(out['seq']) + ' ' + enc_itable(out['table'])


def explore(res, rng, n, extra=()):
    cases = list(extra) + [gen_case(rng) for _ in range(n)]
    # phase 1: default level grids from the model
    need = [(i, c) for i, c in enumerate(cases) if c[3] is None]
    ans = core.driver_batch([f'levels {1 << c[1]} {enc_list(c[0])}' for _, c in need])
    resolved = {}
    for (i, c), a in zip(need, ans):
        resolved[i] = [] if a == '-' else [int(x) for x in a.split(',')]
    reqs, meta = [], []
    for i, (h, s, ref, levels) in enumerate(cases):
        lv = levels if levels is not None else resolved[i]
        res.stat('levels_default' if levels is None else 'levels_user')
        res.stat('near_tie_grid' if s >= 24 else 'coarse_grid')
        out = run_level(h, s, ref, levels)
        res.evaluations += 1
        if len(set(h)) > 1:
            res.nontrivial.add(('lc', tuple(h), ref, tuple(lv)))
        reqs.append(f'lc {enc_list(h)} {ref} {enc_list(lv)}')
        meta.append(('corr', 'astmLevelCrossingCounting', (h, s, ref, levels), out))
        if 'error' not in out:
            reqs.append(f'c05lc {enc_list(h)} {ref} {enc_list(lv)} {enc_list(out["seq"])} {enc_itable(out["table"])}')
            meta.append(('pred', 'astmLevelCrossingCounting', (h, s, ref, levels), out))
            res.stat('lc_events_%s' % ('0' if not out['seq'] else '1-3' if len(out['seq']) <= 3 else '4+'))
        outp = run_peak(h, s, ref)
        res.evaluations += 1
        if len(set(h)) > 1:
            res.nontrivial.add(('pk', tuple(h), ref))
        reqs.append(f'peak {enc_list(h)} {ref}')
        meta.append(('corr', 'astmPeakCounting', (h, s, ref, None), outp))
        if 'error' not in outp:
            reqs.append(f'c05pk {enc_list(h)} {ref} {enc_list(outp["seq"])} {enc_itable(outp["table"])}')
            meta.append(('pred', 'astmPeakCounting', (h, s, ref, None), outp))
    for (kind, api, case, out), a in zip(meta, core.driver_batch(reqs)):
        if kind == 'corr':
            res.traces += 1
            if line(out) != a:
                res.disagreements.append({'what': api + ' vs model', 'input': list(case), 'impl': line(out), 'model': a})
        elif a != 'ok':
            clauses = a.split(':', 1)[1].split(',')
            if api == 'astmLevelCrossingCounting' and clauses == ['timeorder']:
                sig = 'C05:levelcrossing:timeorder-within-falling-segment'
            else:
                sig = f'C05:{api}:{a}:{enc_list(case[0])}:{case[2]}:{enc_list(case[3]) if case[3] else "default"}'
            res.failures.append({'signature': sig, 'clause': a, 'api': api, 'input': case[0], 'scale': case[1],
                                 'ref': case[2], 'levels': case[3], 'impl_output': line(out)})
    res.samples += [{'history': c[0], 'scale_2^-s': c[1], 'ref': c[2], 'levels': c[3]} for c in cases[len(extra):len(extra) + 3]]


# full-scale records in narrow integer dtypes and a single-precision record above 2^24 (default level grids)
FORCE_DTYPE = {(0, 255, 3): 'uint8', (-128, 127, 0): 'int8', (-100, 100): 'int8',
               (200000000, 200000096, 200000032): 'float32', (16777216, 16777226, 16777220): 'float32'}
CORPUS = [(list(k), 0, 0, None) for k in FORCE_DTYPE] + [([5 * 2, 11, 11, 0], 1, 0, None), ([0, -3, -3, 0, 1], 0, 0, None), ([0, 3, 0, 3], 0, 1, [1, 2]),
          ([3, 0, 3, 0], 0, 5, [1, 2])]


def narrow_dtype_events(res, rng, k):
    """histories that fill a narrow integer dtype, given as arrays of that dtype (the values fit, their differences and the level grid built
    from them need not): level crossings and peaks must be those of the same numbers as floats — levels given explicitly (a default unit
    grid over 60000 counts is only slow)"""
    import numpy as np
    core.import_impl()
    from ffpack import lcc
    for _ in range(k):
        dt, lo, hi = rng.choice([(np.int8, -120, 120), (np.uint8, 0, 250), (np.int16, -30000, 30000), (np.uint16, 0, 60000)])
        n = rng.choice([3, 4, 6, 9])
        g = max(1, (hi - lo) // rng.choice([4, 6, 10]))
        h = [lo + rng.randrange(0, (hi - lo) // g + 1) * g for _ in range(n)]
        h[rng.randrange(n)] = hi
        h[rng.randrange(n)] = lo
        if len(set(h)) < 2:
            continue
        levels = sorted({lo + g * j + g // 2 for j in range((hi - lo) // g)})
        ref = rng.choice([0, lo, (lo + hi) // 2])
        outs = {}
        for label, data in (('float', [float(v) for v in h]), (dt.__name__, np.array(h, dtype=dt))):
            try:
                outs[label] = [lcc.astmLevelCrossingCounting(data, refLevel=float(ref), levels=[float(v) for v in levels], aggregate=agg) for agg in (True, False)] + \
                              [lcc.astmPeakCounting(data, refLevel=float(ref), aggregate=agg) for agg in (True, False)]
                outs[label] = json.loads(json.dumps(outs[label], default=float))
            except Exception as e:  # noqa
                outs[label] = 'raised ' + type(e).__name__ + ': ' + str(e)[:80]
        res.evaluations += 1
        res.stat('narrow_dtype_' + dt.__name__)
        if outs['float'] != outs[dt.__name__]:
            res.failures.append({'signature': f'C05:narrow-dtype:{dt.__name__}:{enc_list(h)}:{ref}',
                                 'clause': 'level crossings / peaks of a %s array differ from those of the same numbers as floats' % dt.__name__,
                                 'api': 'astmLevelCrossingCounting / astmPeakCounting', 'input': h, 'dtype': dt.__name__, 'refLevel': ref, 'levels': levels,
                                 'impl_output': {k2: (v if isinstance(v, str) else str(v)[:300]) for k2, v in outs.items()}})


def run(tier, seed):
    res = core.Result(PID, tier, seed)
    res.rule = ('random histories on 2^-s grids (s up to 3, plus near-tie grids s = 24, 30 with samples a few grid steps off a level) spanning a few integer levels x reference level (0, far, equal to a sample, '
                'random) x default or user level sets (unsorted, duplicated); non-trivial = non-constant history; distinct '
                'by (function, history, reference, levels)')
    core.prove(res, PID, MODULES, clean=(tier == 'thorough'))
    rng = random.Random(seed)
    n = 2500 if tier == 'quick' else 60000
    explore(res, rng, n, CORPUS)
    narrow_dtype_events(res, rng, 40 if tier == 'quick' else 600)
    if (res.proof_problems or res.disagreements) and not [f for f in res.failures if 'timeorder' not in f['signature']]:
        explore(res, random.Random(seed + 7919), 4 * n)
    res.disagreements_checked = res.traces
    res.trusted += ['hand-written models FF.levelCrossingSeq / FF.peakSeq of astmCounting.py:53-86,131-141 tied by exact correspondence',
                    'np.searchsorted on the sorted level array is modelled as a filter over the sorted list']
    # (last: a shared default object polluted here must not disturb the streams above)
    # results are the caller's: histories with and without events, both functions, both output forms
    core.import_impl()
    from ffpack import lcc as _lcc
    import cyc as _cyc
    _hs = [[1.0, 1.0], [2.0, 2.0, 2.0], [0.2, 0.4], [0.0, 3.0, -2.0, 1.0], [5.0, 5.0], [0.3, 0.1]]
    _calls = []
    for _h in _hs:
        for _agg in (True, False):
            _calls.append(('astmLevelCrossingCounting', (lambda _h=_h, _agg=_agg: _lcc.astmLevelCrossingCounting(list(_h), aggregate=_agg)), f'{_h} aggregate={_agg}'))
            _calls.append(('astmPeakCounting', (lambda _h=_h, _agg=_agg: _lcc.astmPeakCounting(list(_h), aggregate=_agg)), f'{_h} aggregate={_agg}'))
    _cyc.fresh_results(res, _calls)
    return core.finish(res)


def replay(path):
    d = json.load(open(path))
    f = d.get('failure')
    if not f:
        print('replay file names a broken obligation/tie, no input to replay:', json.dumps(d.get('no_longer_checks'))[:500])
        return 1
    h, s, ref, levels = f['input'], f['scale'], f['ref'], f['levels']
    if f['api'] == 'astmPeakCounting':
        out = run_peak(h, s, ref)
        req = f'c05pk {enc_list(h)} {ref} {enc_list(out["seq"])} {enc_itable(out["table"])}'
    else:
        out = run_level(h, s, ref, levels)
        lv = levels
        if lv is None:
            a = core.driver_batch([f'levels {1 << s} {enc_list(h)}'])[0]
            lv = [] if a == '-' else [int(x) for x in a.split(',')]
        req = f'c05lc {enc_list(h)} {ref} {enc_list(lv)} {enc_list(out["seq"])} {enc_itable(out["table"])}'
    ans = core.driver_batch([req])[0]
    print('api', f['api'], 'input', h, 'scale', s, 'ref', ref, 'levels', levels, 'impl', line(out), 'predicate', ans)
    return 0 if ans == 'ok' else 1
