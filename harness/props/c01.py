"""C01 — ASTM rainflow = E1049 §5.4.4 three-point procedure (DESIGN §5 C01)"""
import json
import os
import random
import core
import cyc
from core import enc_list, enc_cycs, enc_table

PID = 'C01'
MODULES = ['FFVerif.Proofs.C01']


def pred(name, h, out):
    return f'c01 {enc_list(h)} {enc_cycs(out["seq"])} {enc_table(out["table"])}'


def corpus():
    p = os.path.join(core.VERIF, 'corpus', 'histories.json')
    return [(h, 0) for h in json.load(open(p))] if os.path.exists(p) else []


def matrix_cases(res, cases):
    """the same count observed through astmRainflowCountingMatrix (resolution 1 on integer data)"""
    core.import_impl()
    from ffpack import lsm
    reqs, meta = [], []
    for h, s in cases:
        if s != 0 or len(h) < 2 or len(set(h)) < 2:
            continue
        try:
            m, keys = lsm.astmRainflowCountingMatrix([float(x) for x in h], 1.0)
        except Exception as e:  # noqa
            res.failures.append({'signature': f'C01:matrix:raises:{type(e).__name__}:{enc_list(h)}', 'clause': 'astmRainflowCountingMatrix raised on a valid history: ' + repr(e)[:100],
                                 'api': 'astmRainflowCountingMatrix', 'input': h, 'scale': 0})
            continue
        ks = [int(round(float(k.replace(',', '')))) for k in keys]
        # integer data digitised at resolution 1 is itself: entry (i,j) must be the from-to total
        cs = [(ks[i], ks[j], int(round(v * 2))) for i, row in enumerate(m) for j, v in enumerate(row) if v != 0]
        reqs.append(f'c01mat {enc_list(h)} {enc_cycs(cs)}')
        meta.append(h)
        res.evaluations += 1
    for h, ans in zip(meta, core.driver_batch(reqs)):
        if ans != 'ok':
            res.failures.append({'signature': f'C01:matrix:{ans}:{enc_list(h)}', 'clause': 'matrix-' + ans,
                                 'api': 'astmRainflowCountingMatrix', 'input': h, 'scale': 0})


def quiet_matrix(res, rng, k):
    """histories that stay inside one digitisation level: a valid history, one half cycle of range 0 at that level"""
    core.import_impl()
    from ffpack import lsm, lcc
    for _ in range(k):
        r = rng.choice([0.5, 1.0, 2.0])
        base = rng.choice([0.0, 10.0, -3.0, 7.0]) * r        # a level of the digitisation grid
        h = [base + rng.uniform(-0.2, 0.2) * r for _ in range(rng.choice([2, 3, 5, 8]))]
        res.evaluations += 1
        res.stat('matrix_quiet_history')
        case = {'history': h, 'resolution': r}
        try:
            m, keys = lsm.astmRainflowCountingMatrix(list(h), r)
            own = lcc.astmRainflowCounting([base] * len(h), aggregate=True)
        except Exception as e:  # noqa
            res.failures.append({'signature': f'C01:matrix:quiet:raises:{type(e).__name__}', 'clause': 'astmRainflowCountingMatrix raised on a valid history that stays inside one level: ' + repr(e)[:100],
                                 'api': 'astmRainflowCountingMatrix', 'input': case})
            continue
        tot = sum(c for _, c in own)
        if len(keys) != 1 or abs(float(keys[0].replace(',', '')) - base) > 1e-9 or len(m) != 1 or len(m[0]) != 1 or abs(m[0][0] - tot) > 1e-12:
            res.failures.append({'signature': f'C01:matrix:quiet:value:{base}:{r}', 'clause': 'matrix of a one-level history is not the 1x1 matrix of its count',
                                 'api': 'astmRainflowCountingMatrix', 'input': case, 'impl_output': [m, keys, own]})


def explore(res, rng, n, exhaustive=None):
    cases = [cyc_case for cyc_case in corpus()]
    cases += [core.gen_history(rng) for _ in range(n)]
    if exhaustive:
        cases += [(h, 0) for h in core.small_histories(*exhaustive)]
    for h, s in cases:
        cyc.hist_stats(res, h)
    cyc.correspondence(res, ['rainflow'], cases, pred)
    matrix_cases(res, cases[: max(200, n // 5)])
    # decimal grids (ranges that are equal at 8 decimals but different binary64 numbers) and a changed number of digits: the table
    # is the histogram of the counter's own cycle list (the clause that does not depend on how float ties are decided)
    dec = []
    for _ in range(max(40, n // 20)):
        h, _s = core.gen_history(rng, maxlen=16)
        if max(abs(v) for v in h) < 4096:
            dec.append((h, rng.choice([-1, -1, -2, -3])))
    cyc.config_stream(res, ['rainflow'], dec, digits_choices=(8, 8, 8, 2))
    quiet_matrix(res, rng, max(20, n // 50))
    cyc.micro_stream(res, ['rainflow'], rng, max(30, n // 25), pred)
    callers_array(res, rng, 12)
    cyc.extreme_scale_stream(res, ['rainflow'], rng, max(12, n // 60))
    cyc.narrow_dtype_stream(res, ['rainflow'], rng, max(10, n // 80))
    res.samples += [{'history': h, 'scale_2^-s': s} for h, s in cases[len(corpus()):len(corpus()) + 3]]


def callers_array(res, rng, k):
    """the history handed over as a float64 array stays the caller's: the matrix function (which digitises) must not write into it, and the
    rainflow count of the same array afterwards is the count of the history (a second matrix at a finer resolution likewise)"""
    import numpy as np
    core.import_impl()
    from ffpack import lcc, lsm
    for _ in range(k):
        n = rng.choice([5, 7, 10])
        vals = [round(rng.uniform(-5, 5), 2) for _ in range(n)]
        if len(set(vals)) < 3:
            continue
        arr = np.array(vals, dtype=float)
        res.evaluations += 1
        res.stat('matrix_then_count_on_the_same_float64_array')
        case = {'history': vals, 'resolutions': [1.0, 0.25]}
        try:
            want_seq = lcc.astmRainflowCounting(list(vals), aggregate=False)
            want_m2 = lsm.astmRainflowCountingMatrix(list(vals), 0.25)
            lsm.astmRainflowCountingMatrix(arr, 1.0)
            untouched = bool(np.array_equal(arr, np.array(vals, dtype=float)))
            got_seq = lcc.astmRainflowCounting(arr, aggregate=False)
            got_m2 = lsm.astmRainflowCountingMatrix(arr, 0.25)
        except Exception as e:  # noqa
            res.failures.append({'signature': f'C01:callers-array:raised:{vals}', 'clause': 'valid call on a float64 array raised ' + repr(e)[:80],
                                 'api': 'astmRainflowCountingMatrix / astmRainflowCounting', 'input': case})
            continue
        if not untouched or repr(got_seq) != repr(want_seq) or repr(got_m2) != repr(want_m2):
            res.failures.append({'signature': f'C01:callers-array:{vals}', 'clause': ('the float64 array of the caller was modified by astmRainflowCountingMatrix' if not untouched else
                                                                                      'counting the array after a matrix call differs from counting the history'),
                                 'api': 'astmRainflowCountingMatrix / astmRainflowCounting', 'input': case,
                                 'impl_output': {'array_after': [float(v) for v in arr][:8], 'cycles': repr(got_seq)[:160], 'cycles_of_the_history': repr(want_seq)[:160]}})


def malformed(res):
    core.import_impl()
    from ffpack import lcc
    for bad, want in [([], 'ValueError'), ([1.0], 'ValueError'), ([[1.0, 2.0], [2.0, 3.0]], 'ValueError')]:
        try:
            lcc.astmRainflowCounting(bad)
            got = 'ok'
        except ValueError:
            got = 'ValueError'
        except Exception as e:  # noqa
            got = 'other:' + type(e).__name__
        res.stat('malformed_' + got)
        if got != want:
            res.disagreements.append({'what': 'input guard', 'input': bad, 'impl': got, 'model': want})


def run(tier, seed):
    res = core.Result(PID, tier, seed)
    res.rule = ('random tie-rich histories (alphabets of 2-20 values, plateaus, monotone stretches, closed '
                'periods) on the dyadic grid; non-trivial = at least one interior reversal; distinct by value tuple')
    core.prove(res, PID, MODULES, clean=(tier == 'thorough'))
    rng = random.Random(seed)
    n = 2500 if tier == 'quick' else 40000
    explore(res, rng, n, exhaustive=(6, 4) if tier == 'quick' else (8, 5))
    res.exhaustive = False
    res.notes.append('all histories of length <= %d over %d values enumerated in addition (a test, not the theorem)'
                     % ((6, 4) if tier == 'quick' else (8, 5)))
    malformed(res)
    if (res.proof_problems or res.disagreements) and not res.failures:
        explore(res, random.Random(seed + 7919), 4 * n)
    res.disagreements_checked = res.traces
    res.trusted += ['hand-written model FF.implGo of astmCounting.py:243-289 tied by exact correspondence',
                    'modelled not verified: np.array coercion, defaultdict/argsort aggregation (compared, not proved)']
    return core.finish(res)


def replay(path):
    d = json.load(open(path))
    f = d.get('failure')
    if not f:
        print('replay file names a broken obligation/tie, no input to replay:', json.dumps(d.get('no_longer_checks'))[:500])
        return 1
    h, s = f['input'], f.get('scale', 0)
    out = cyc.run_impl('rainflow', h, s)
    ans = core.driver_batch([pred('rainflow', h, out)])[0] if 'error' not in out else 'error'
    print('input', h, 'scale', s, 'impl', cyc.impl_line(out), 'predicate', ans)
    return 0 if ans == 'ok' else 1
