"""C03 — counts depend only on the reversals and respect the load symmetries (DESIGN §5 C03)"""
import json
import os
import random
import core
import cyc
from core import enc_list, enc_table
from props import c05

PID = 'C03'
MODULES = ['FFVerif.Proofs.C03', 'FFVerif.Proofs.C03Reverse']
RANGE_ONLY = ['simple', 'rainflow', 'rangepair', 'fourpoint']
REVERSIBLE = ['simple', 'rainflow', 'fourpoint', 'rychlik']


def refine(rng, h):
    """insert samples on monotone stretches / repeat samples (the relation FF.Refines)"""
    out = list(h)
    for _ in range(rng.choice([1, 1, 2, 3, 5])):
        i = rng.randrange(len(out) - 1) if len(out) >= 2 else 0
        if len(out) < 2:
            break
        a, b = out[i], out[i + 1]
        v = rng.randint(min(a, b), max(a, b))
        if rng.random() < 0.35:
            v = rng.choice([a, b])
        out.insert(i + 1, v)
    return out


def config_scale(res, rng, k):
    """scaling under a changed configuration: the number of digits to which aggregated ranges are rounded is read from globalConfig when the
    counter is called.  With globalConfig.atol = 12, a history of small integers scaled by c = 1e-9 (ranges of 1e-9 .. 1e-7, resolved by 12
    digits, not by the default 8) must give the table of the unscaled history with every range multiplied by c - for every counter"""
    core.import_impl()
    from ffpack import lcc
    for _ in range(k):
        h, _s = core.gen_history(rng, maxlen=14, closed=(rng.random() < 0.5))
        if max(abs(v) for v in h) >= 100 or len(set(h)) < 2:
            continue
        c = rng.choice([1e-9, 1e-10, 2e-9])
        for name in cyc.NAMES:
            if not cyc.valid_for(name, h):
                continue
            f = getattr(lcc, cyc.API[name])
            res.evaluations += 1
            res.stat('kind_scale_under_atol_12')
            try:
                with cyc.with_atol(12):
                    t1 = f([float(v) for v in h])
                    tc = f([v * c for v in h])
            except Exception as e:  # noqa
                res.failures.append({'signature': f'C03:{name}:config-scale:raises:{enc_list(h)}', 'clause': 'valid history raised under globalConfig.atol = 12: ' + repr(e)[:100],
                                     'api': cyc.API[name], 'input': h, 'scale_factor': c})
                continue
            t1 = [] if t1 == [[]] else t1
            tc = [] if tc == [[]] else tc
            ok = len(t1) == len(tc) and all(abs(float(b[0]) - c * float(a[0])) <= 2e-12 and float(a[1]) == float(b[1]) for a, b in zip(t1, tc))
            if not ok:
                res.failures.append({'signature': f'C03:{name}:config-scale:{enc_list(h)}:{c}', 'clause': 'scale (globalConfig.atol = 12, c = %g): the table of c*x is not c times the table of x' % c,
                                     'api': cyc.API[name], 'input': h, 'scale_factor': c, 'impl_output': {'table_x': [list(map(float, r)) for r in t1][:6], 'table_cx': [list(map(float, r)) for r in tc][:6]}})


def explore(res, rng, n, exhaustive=None):
    base = [([0, -3, 0, 1], 0), ([5, 11, 0], 1), ([0, 2, 1, 2, 0], 0)]
    cases = base + [core.gen_history(rng, maxlen=25, closed=(rng.random() < 0.3)) for _ in range(n)]
    if exhaustive:
        cases += [(h, 0) for h in core.small_histories(*exhaustive)]
    reqs, meta = [], []

    def cmp_tables(kind, name, h, s, h2, s2, c):
        a = cyc.run_impl(name, h, s)
        b = cyc.run_impl(name, h2, s2)
        res.evaluations += 1
        res.stat('kind_' + kind)
        if 'error' in a or 'error' in b:
            if ('error' in a) != ('error' in b):
                res.failures.append({'signature': f'C03:{name}:{kind}:error:{enc_list(h)}', 'clause': kind + ': one side raised',
                                     'api': cyc.API[name], 'input': h, 'scale': s, 'transformed': h2,
                                     'impl_output': cyc.impl_line(a) + ' | ' + cyc.impl_line(b)})
            return
        # row by row as returned (a range reported in two rows for x and in one row for the transformed history is a changed count table)
        if len({k0 for k0, _ in a['table']}) != len(a['table']) or len({k0 for k0, _ in b['table']}) != len(b['table']):
            res.failures.append({'signature': f'C03:{name}:{kind}:split-rows:{enc_list(h)}:{s}', 'clause': kind + ': one range is reported in several rows for one history and not for the other',
                                 'api': cyc.API[name], 'input': h, 'scale': s, 'transformed': h2,
                                 'impl_output': {'table_x': a['table'][:8], 'table_transformed': b['table'][:8]}})
            return
        reqs.append(f'c03t {c} {enc_table(a["table"])} {enc_table(b["table"])}')
        meta.append((kind, cyc.API[name], h, s, h2, a, b))

    for idx, (h, s) in enumerate(cases):
        if len(h) < 2:
            continue
        cyc.hist_stats(res, h)
        if cyc.nontrivial_key(h):
            res.nontrivial.add(tuple(h))
        small = idx >= len(base) + n        # exhaustive part: reversal only (the unproved clause)
        for name in REVERSIBLE:
            if cyc.valid_for(name, h):
                cmp_tables('reverse', name, h, s, h[::-1], s, 1)
        if not small:
            h2 = refine(rng, h)
            d = rng.choice([1, -3, 17, -(1 << 10)])
            c = rng.choice([2, 3, 7])
            for name in cyc.NAMES:
                if not cyc.valid_for(name, h):
                    continue
                cmp_tables('refine', name, h, s, h2, s, 1)
                cmp_tables('shift', name, h, s, [x + d for x in h], s, 1)
                cmp_tables('scale', name, h, s, [c * x for x in h], s, c)
                if name in RANGE_ONLY:
                    cmp_tables('negate', name, h, s, [-x for x in h], s, 1)
            # level crossing and peak counting: refinement, offset, scale
            ref = rng.choice([0, h[0], rng.randint(min(h), max(h))])
            lv = sorted({rng.randint(min(h) - 1, max(h) + 1) for _ in range(4)})
            for kind, hh, rr, ll, cc, dd in [('refine', h2, ref, lv, 1, 0),
                                             ('shift', [x + d for x in h], ref + d, [x + d for x in lv], 1, d),
                                             ('scale', [c * x for x in h], c * ref, [c * x for x in lv], c, 0)]:
                a = c05.run_level(h, s, ref, lv)
                b = c05.run_level(hh, s, rr, ll)
                pa = c05.run_peak(h, s, ref)
                pb = c05.run_peak(hh, s, rr)
                res.evaluations += 2
                res.stat('kind_' + kind + '_events')
                for api, x, y in (('astmLevelCrossingCounting', a, b), ('astmPeakCounting', pa, pb)):
                    if 'error' in x or 'error' in y:
                        continue
                    reqs.append(f'c03e {cc} {dd} {c05.enc_itable(x["table"])} {c05.enc_itable(y["table"])}')
                    meta.append((kind, api, h, s, hh, x, y))
            # the default level grid must not move under refinement
            if max(h) - min(h) > (64 << s):
                continue                # a unit-spaced default grid over a huge span is only slow
            a = c05.run_level(h, s, 0, None)
            b = c05.run_level(h2, s, 0, None)
            res.evaluations += 1
            if 'error' not in a and 'error' not in b:
                reqs.append(f'c03e 1 0 {c05.enc_itable(a["table"])} {c05.enc_itable(b["table"])}')
                meta.append(('refine-default-levels', 'astmLevelCrossingCounting', h, s, h2, a, b))
    # ---- decimal data (k / 10, k / 100: the nearest binary64 numbers, as a user reads them from a file): equal nominal ranges at different
    # load levels differ in the last bits (0.4 - 0.1 != 0.7 - 0.4); offset and scale must still leave the counts alone
    for _ in range(max(20, n // 30)):
        sd = rng.choice([-1, -1, -2])
        m = rng.choice([5, 6, 8, 10, 14])
        step = rng.choice([1, 1, 2, 3])
        hd = [rng.randint(0, 9) * step for _ in range(m)]
        if rng.random() < 0.5:
            # a staircase of small cycles of ONE nominal range r at different levels inside a large swing
            r = rng.choice([1, 2, 3])
            lv = sorted(rng.sample(range(1, 9), rng.choice([2, 3, 4])))
            hd = [0] + [v for l in lv for v in (l + r, l)] + [12, rng.choice([0, 2])]
        if len(set(hd)) < 2:
            continue
        if rng.random() < 0.3:
            hd[-1] = hd[0]
        d = rng.choice([1, 7, -3, 10, 13])
        c = rng.choice([2, 3, 10, 7])
        for name in cyc.NAMES:
            if not cyc.valid_for(name, hd):
                continue
            res.stat('decimal_grid_history')
            cmp_tables('shift', name, hd, sd, [x + d for x in hd], sd, 1)
            cmp_tables('scale', name, hd, sd, [c * x for x in hd], sd, c)
            if name in REVERSIBLE:
                cmp_tables('reverse', name, hd, sd, hd[::-1], sd, 1)
    config_scale(res, rng, max(12, n // 40))
    cyc.extreme_scale_stream(res, cyc.NAMES, rng, max(12, n // 60))      # scale invariance at magnitudes 2^-1000 … 2^900 (cycle lists, exact)
    cyc.narrow_dtype_stream(res, cyc.NAMES, rng, max(10, n // 80))
    cyc.config_cycles_stream(res, cyc.NAMES, rng, max(16, n // 60))
    for (kind, api, h, s, h2, a, b), ans in zip(meta, core.driver_batch(reqs)):
        if ans != 'ok':
            res.failures.append({'signature': f'C03:{api}:{kind}:{enc_list(h)}->{enc_list(h2)}', 'clause': kind, 'api': api,
                                 'input': h, 'scale': s, 'transformed': h2,
                                 'impl_output': str(a.get('table')) + ' | ' + str(b.get('table'))})
    res.samples += [{'history': h, 'scale_2^-s': s} for h, s in cases[len(base):len(base) + 3]]


def run(tier, seed):
    res = core.Result(PID, tier, seed)
    res.rule = ('random histories; each paired with a refined copy (random insertions inside [a,b] of consecutive samples, '
                'repetitions), an offset copy, a scaled copy, a negated copy, a reversed copy; all nine counting functions; '
                'non-trivial = at least one interior reversal; distinct by value tuple')
    core.prove(res, PID, MODULES, clean=(tier == 'thorough'))
    n = 400 if tier == 'quick' else 8000
    ex = (6, 3) if tier == 'quick' else (8, 4)
    explore(res, random.Random(seed), n, exhaustive=ex)
    res.notes.append('all histories of length <= %d over %d values enumerated in addition for the reversal clause (a test; the clause is '
                     'also a theorem: C03_reverse in Proofs/C03Reverse.lean)' % ex)
    res.extra['proved_clauses'] = ['insertion/repetition (all nine functions, incl. default level grid)', 'offset (all)',
                                   'positive scale (all)', 'negation (simple, rainflow, range-pair, four-point)',
                                   'time reversal (simple-range, rainflow, four-point, Rychlik: confluence of four-point extraction)']
    res.extra['tested_only_clauses'] = []
    if res.proof_problems and not res.failures:
        explore(res, random.Random(seed + 7919), 4 * n)
    res.disagreements_checked = res.evaluations
    res.traces = res.evaluations
    res.trusted += ['models of the nine counting functions tied to /repo/src by the exact correspondence of checks C02 and C05 '
                    '(this check evaluates the metamorphic relations on the implementation only)']
    return core.finish(res)


def replay(path):
    d = json.load(open(path))
    f = d.get('failure')
    if not f:
        print('replay file names a broken obligation/tie, no input to replay:', json.dumps(d.get('no_longer_checks'))[:500])
        return 1
    print('recorded failing pair:', json.dumps(f)[:1200])
    name = [k for k, v in cyc.API.items() if v == f['api']]
    if name:
        a = cyc.run_impl(name[0], f['input'], f['scale'])
        b = cyc.run_impl(name[0], f['transformed'], f['scale'])
        print('now:', a.get('table'), '|', b.get('table'))
    return 1
