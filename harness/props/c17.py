"""C17 — spectral synthesis and spectral estimation conserve the signal's energy (DESIGN §5 C17)"""
import json
import math
import os
import random
from unittest import mock
import core
import gen

PID = 'C17'
MODULES = ['FFVerif.Proofs.C17', 'FFVerif.Proofs.C17Welch', 'FFVerif.Proofs.C17Full']


def fail(res, clause, case, out, sig=None):
    res.failures.append({'signature': sig or 'C17:' + clause + ':' + json.dumps(case, default=str), 'clause': clause, 'input': case,
                         'impl_output': out})


def explore(res, rng, n):
    core.import_impl()
    import numpy as np
    from scipy import signal
    from ffpack import lsg, lsm
    reqs, meta = [], []
    for i in range(n):
        # ---- synthesis with whole periods: T seconds, frequencies m / T below Nyquist
        T = rng.choice([1.0, 2.0, 4.0])
        fs = rng.choice([16.0, 32.0, 50.0, 64.0])
        if i == 1:
            T, fs = 80.0, 128.0          # a long record (10240 samples)
        decimal = (i % 4 == 3)
        if decimal:
            T, fs = 10.0, rng.choice([20.0, 50.0])     # a decimal frequency grid: 0.1 Hz spacing, bandwidths 0.2, 0.3, 0.6, 0.7 (3 * 0.1 != 0.3 in binary64)
        nn = round(fs * T)
        df = 1.0 / T * rng.choice([1, 1, 2])
        m0 = rng.choice([1, 2, 3])
        nf = rng.choice([3, 4, 6])
        freq = [df * (m0 + k) for k in range(nf)]
        while freq[-1] >= fs / 2:
            freq.pop()
        if len(freq) < 3:
            continue
        psd = [rng.choice([0.0, 0.5, 1.0, 2.0, 3.5]) for _ in freq]
        thin = rng.choice([None, None, df, 2 * df, 3 * df, 0.8 * df, 0.5 * df, 0.3 * df, 2.5 * df, 1.5 * df, 1.25 * df])      # incl. bandwidths below the grid spacing
        if decimal:
            freq = [round(f, 10) for f in freq]                       # the decimal literals 0.1, 0.2, ... as a user writes them
            thin = round(rng.choice([2, 3, 3, 6, 7]) * df, 10) if rng.random() < 0.8 else thin
            res.stat('decimal_frequency_grid')
        rvals = [rng.uniform(-2, 2) for _ in freq]
        case = {'fs': fs, 'time': T, 'freq': freq, 'psd': psd, 'freqBandwidth': thin, 'randn': rvals}
        with mock.patch.object(np.random, 'randn', side_effect=lambda k: np.array(rvals[:k])):
            ts, amps = lsg.spectralRepresentation(fs, T, freq, psd, freqBandwidth=thin, randomSeed=1)
        res.evaluations += 1
        res.nontrivial.add(json.dumps(case))
        res.stat('thinned' if thin and thin > df else ('bandwidth_below_spacing' if thin and thin < df else 'all_components'))
        if i < 2:
            res.samples.append(case)
        bw = df if (thin is None or thin < freq[1] - freq[0]) else thin
        nxt = round(bw / (freq[1] - freq[0]))
        used = list(range(0, len(freq), nxt))
        if len(ts) != nn or len(amps) != nn or not np.allclose(ts, np.arange(nn) / fs, rtol=0, atol=1e-12):
            fail(res, 'series does not have round(fs*T) samples at times k/fs', case, [len(ts), nn])
        bound = sum(math.sqrt(2 * psd[k] * bw) for k in used)
        if np.max(np.abs(amps)) > bound * (1 + 1e-12) + 1e-12:
            fail(res, 'series exceeds the sum of its component amplitudes', case, [float(np.max(np.abs(amps))), bound])
        area = sum(psd[k] * bw for k in used)
        ms = float(np.mean(np.square(amps)))
        if abs(ms - area) > (1e-9 if not decimal else 1e-7) * (1 + area):
            fail(res, 'mean square differs from the spectral area (whole periods below Nyquist)', case, [ms, area])
        fper, pper = lsm.periodogramSpectrum(amps, fs)
        for k in used:
            b = round(freq[k] * T)
            want = psd[k] * bw * T          # = psd when the bandwidth is the periodogram resolution fs/n = 1/T
            if abs(fper[b] - freq[k]) > 1e-9 or abs(pper[b] - want) > (1e-8 if not decimal else 1e-6) * (1 + want):
                fail(res, 'periodogram of the synthesised series does not return the input spectrum at its frequencies', case,
                     {'f': freq[k], 'periodogram': float(pper[b]), 'expected': want})
        # model correspondence (Float instance of the generic synthesiser)
        phases = [-np.pi + 2 * np.pi * r for r in rvals]
        comps = ','.join(f'{gen.bits(f)},{gen.bits(p)},{gen.bits(ph)}' for f, p, ph in zip(freq, psd, phases))
        reqs.append(f'synth {gen.bits(fs)} {gen.bits(bw)} {nxt} {nn} {comps}')
        meta.append((case, [float(a) for a in amps]))
        # … and the whole function after validation (Spectral.synthFull: sample count, spacing, bandwidth, stride and phases computed by the
        # model from the RAW arguments and normal draws)
        raw = ','.join(f'{gen.bits(f)},{gen.bits(p)},{gen.bits(r)}' for f, p, r in zip(freq, psd, rvals))
        reqs.append(f'synthfull {gen.bits(fs)} {gen.bits(T)} {"none" if thin is None else gen.bits(thin)} {raw}')
        meta.append((dict(case, model='synthFull'), [float(a) for a in amps]))
        res.stat('synthfull_bandwidth_' + ('none' if thin is None else 'below_spacing' if thin < df else 'multiple' if abs(thin / df - round(thin / df)) < 1e-9 else 'fractional'))
        # ---- durations that are not a whole number of sampling intervals: round(fs*T) samples at times k/fs
        T2 = rng.choice([4.05, 2.53, 1.26, 0.99])
        fs3 = rng.choice([8.0, 10.0, 25.0])
        nn2 = round(fs3 * T2)
        freq2 = [0.5, 1.0, 1.5, 2.0]
        psd2 = [rng.choice([0.5, 1.0, 2.0]) for _ in freq2]
        rv2 = [rng.uniform(-2, 2) for _ in freq2]
        with mock.patch.object(np.random, 'randn', side_effect=lambda k: np.array(rv2[:k])):
            ts2, amps2 = lsg.spectralRepresentation(fs3, T2, freq2, psd2, randomSeed=1)
        res.evaluations += 1
        res.stat('duration_not_multiple_of_sampling_interval')
        case3 = {'fs': fs3, 'time': T2, 'freq': freq2, 'psd': psd2, 'randn': rv2}
        if len(ts2) != nn2 or len(amps2) != nn2 or not np.allclose(ts2, np.arange(nn2) / fs3, rtol=0, atol=1e-12):
            fail(res, 'series does not have round(fs*T) samples at times k/fs', case3, [len(ts2), nn2, [float(v) for v in ts2[:3]]])
        ph2 = [-np.pi + 2 * np.pi * r for r in rv2]
        comps2 = ','.join(f'{gen.bits(f)},{gen.bits(p)},{gen.bits(q)}' for f, p, q in zip(freq2, psd2, ph2))
        reqs.append(f'synth {gen.bits(fs3)} {gen.bits(0.5)} 1 {nn2} {comps2}')
        meta.append((case3, [float(a) for a in amps2]))
        raw2 = ','.join(f'{gen.bits(f)},{gen.bits(p)},{gen.bits(r)}' for f, p, r in zip(freq2, psd2, rv2))
        reqs.append(f'synthfull {gen.bits(fs3)} {gen.bits(T2)} none {raw2}')
        meta.append((dict(case3, model='synthFull'), [float(a) for a in amps2]))
        # ---- what is returned belongs to the caller: the time axis shifted in place (ts += t0), the series rescaled in place - the same call
        # again must return what it returned the first time
        if i % 3 == 0:
            ts_first, amps_first = np.array(ts, dtype=float).copy(), np.array(amps, dtype=float).copy()
            try:
                if isinstance(ts, np.ndarray):
                    ts += 5.0
                else:
                    ts[:] = [v + 5.0 for v in ts]
                if isinstance(amps, np.ndarray):
                    amps *= 3.0
                else:
                    amps[:] = [3.0 * v for v in amps]
            except Exception:  # noqa (a read-only result cannot be aliased)
                pass
            with mock.patch.object(np.random, 'randn', side_effect=lambda k: np.array(rvals[:k])):
                ts_b, amps_b = lsg.spectralRepresentation(fs, T, freq, psd, freqBandwidth=thin, randomSeed=1)
            res.evaluations += 1
            res.stat('synthesis_repeated_after_the_caller_modified_the_first_result')
            if not np.array_equal(np.array(ts_b, dtype=float), ts_first) or not np.allclose(np.array(amps_b, dtype=float), amps_first, rtol=1e-12, atol=1e-12):
                fail(res, 'a repeated call returns times / values altered by what the caller did to the arrays returned before', case,
                     {'times_first': ts_first[:3].tolist(), 'times_again': [float(v) for v in ts_b[:3]]})
        # ---- single-precision records (float32 arrays from a data logger): the same numbers as binary64 must give the same estimates
        if i % 3 == 1:
            L32 = rng.choice([16, 64, 257])
            base = rng.choice([0.0, 101325.0, 1e20])
            x32 = (np.array([rng.gauss(0, 1) for _ in range(L32)]) * (1.0 if base < 1e19 else 1e20) + (base if base < 1e19 else 0.0)).astype(np.float32)
            x64 = [float(v) for v in x32]
            res.evaluations += 1
            res.stat('float32_record')
            case32 = {'series_float32': x64[:12], 'length': L32, 'fs': 10.0}
            try:
                fa, pa = lsm.periodogramSpectrum(x32, 10.0)
                fb, pb = lsm.periodogramSpectrum(x64, 10.0)
                fwa, pwa = lsm.welchSpectrum(x32, 10.0, nperseg=8)
                fwb, pwb = lsm.welchSpectrum(x64, 10.0, nperseg=8)
                okp = np.allclose(pa, pb, rtol=1e-9, atol=1e-9 * float(np.max(pb))) and np.allclose(pwa, pwb, rtol=1e-9, atol=1e-9 * float(np.max(pwb)))
            except Exception as e:  # noqa
                fail(res, 'a float32 record raised: ' + repr(e)[:100], case32, None)
                okp = True
            if not okp:
                fail(res, 'the estimates for a float32 record differ from those for the same numbers in binary64', case32,
                     {'periodogram_float32': [float(v) for v in pa[:4]], 'periodogram_binary64': [float(v) for v in pb[:4]]})
        # ---- estimation on an arbitrary series
        L = rng.choice([8, 9, 16, 31, 64]) if i % 6 else rng.choice([4099, 5003, 8198])      # long records with a large prime factor
        x = np.array([rng.gauss(0, 1) + rng.choice([0.0, 3.0]) for _ in range(L)])
        shape = i % 5
        if shape == 1:
            x = 101325.0 + 0.4 * x            # a small fluctuation on a large mean (a pressure record in Pa)
            res.stat('series_small_ripple_on_large_offset')
        elif shape == 3:
            x = x * rng.choice([2.0 ** -30, 1e-9, 2.0 ** -200])       # small magnitudes (strains, SI units)
            res.stat('series_small_magnitude')
        fs2 = rng.choice([1.0, 10.0, 128.0])
        f1, p1 = lsm.periodogramSpectrum(x.tolist(), fs2)
        if i % 5 == 2:
            try:
                f1n, p1n = lsm.periodogramSpectrum(x.tolist(), np.float32(fs2) if fs2 != 1.0 else np.int64(1))
                fwn, pwn = lsm.welchSpectrum(x.tolist(), np.int64(int(fs2)), nperseg=min(8, L))
                res.stat('numpy_scalar_sampling_rate')
                if not np.allclose(p1n, p1, rtol=1e-6) or not np.allclose(f1n, f1, rtol=1e-6):
                    fail(res, 'periodogram changes when fs is a numpy scalar', {'fs': fs2}, None)
            except Exception as e:  # noqa
                fail(res, 'valid sampling rate rejected when passed as a numpy scalar: ' + type(e).__name__ + ' ' + str(e)[:60], {'fs': fs2}, None)
        fr, pr = signal.periodogram(x, fs2, scaling='density')
        fw, pw = lsm.welchSpectrum(x.tolist(), fs2, nperseg=min(8, L))
        frw, prw = signal.welch(x, fs2, nperseg=min(8, L))
        res.evaluations += 1
        case2 = {'series': x.tolist(), 'fs': fs2}
        # the Welch estimate as the mathematical object of Proofs/C17Welch.lean (segments of length L every L - L//2 samples, segment mean
        # removed, periodic Hann window, density scaling, interior bins doubled, average), written out here and compared with what the
        # wrapper returns: the theorems C17w_* are about this object
        Lw = min(8, L)
        stepw = Lw - Lw // 2
        nsegw = (L - Lw // 2) // stepw
        win = 0.5 - 0.5 * np.cos(2 * np.pi * np.arange(Lw) / Lw) if Lw > 1 else np.ones(1)
        acc = np.zeros(Lw // 2 + 1)
        for sgi in range(nsegw):
            seg = x[sgi * stepw: sgi * stepw + Lw]
            spec = np.abs(np.fft.rfft(win * (seg - np.mean(seg)))) ** 2
            acc += spec
        refw = acc / nsegw / (fs2 * np.sum(win ** 2))
        refw[1:(Lw + 1) // 2] *= 2
        if len(refw) != len(pw) or not np.allclose(refw, pw, rtol=1e-9, atol=1e-12 * (float(np.max(np.abs(pw))) + 1e-300)):
            fail(res, 'welchSpectrum is not the averaged windowed one-sided density of its segments (the object of the Welch theorems)', case2,
                 {'wrapper': [float(v) for v in pw[:4]], 'definition': [float(v) for v in refw[:4]]})
        if not (np.array_equal(f1, fr) and np.array_equal(p1, pr) and np.array_equal(fw, frw) and np.array_equal(pw, prw)):
            fail(res, 'wrapper does not forward to scipy.signal unchanged', case2, None)
        if np.any(p1 < 0) or not np.allclose(f1, np.arange(len(f1)) * fs2 / L, rtol=1e-12, atol=1e-12):
            fail(res, 'periodogram is not a non-negative density on the grid k fs/n', case2, None)
        areap = float(np.sum(p1) * fs2 / L)
        if abs(areap - float(np.var(x))) > (1e-9 if shape not in (1, 3) else 1e-6) * ((1 if shape != 3 else 0) + float(np.var(x))):
            fail(res, 'periodogram area differs from the variance of the series', case2, [areap, float(np.var(x))])
        _, p3 = lsm.periodogramSpectrum((3 * x).tolist(), fs2)
        _, pw3 = lsm.welchSpectrum((3 * x).tolist(), fs2, nperseg=min(8, L))
        tiny = float(np.max(p1)) * 1e-9 if shape in (1, 3) else 1e-12
        if not np.allclose(p3, 9 * p1, rtol=1e-6 if shape == 1 else 1e-9, atol=tiny) or not np.allclose(pw3, 9 * pw, rtol=1e-6 if shape == 1 else 1e-9, atol=tiny):
            fail(res, 'estimates do not scale with the square of the amplitude', case2, None)
        f4, p4 = lsm.periodogramSpectrum(x.tolist(), 7 * fs2)
        fw4, pw4 = lsm.welchSpectrum(x.tolist(), 7 * fs2, nperseg=min(8, L))
        one = 0.0 if shape == 3 else 1.0
        if abs(float(np.sum(p4) * 7 * fs2 / L) - areap) > 1e-9 * (one + areap) or \
                abs(float(np.sum(pw4) * (fw4[1] - fw4[0])) - float(np.sum(pw) * (fw[1] - fw[0]))) > 1e-9 * (one + areap + float(np.sum(pw) * (fw[1] - fw[0]))):
            fail(res, 'area changes when only the sampling rate changes', case2, None)
    for (case, amps), a in zip(meta, core.driver_batch(reqs)):
        res.traces += 1
        if a == 'bad-request':
            res.disagreements.append({'what': 'model driver has no synth command', 'input': case})
            continue
        model = [gen.unbits(x) for x in a.split(',')]
        if len(model) != len(amps) or any(abs(u - v) > 1e-9 * (1 + abs(v)) for u, v in zip(model, amps)):
            res.disagreements.append({'what': 'spectralRepresentation vs model', 'input': case, 'impl': amps[:4], 'model': model[:4]})


def run(tier, seed):
    res = core.Result(PID, tier, seed)
    res.rule = ('random equally spaced spectra whose components complete whole periods below Nyquist, with and without bandwidth thinning, '
                'scripted phases; random real series of length 8-64 and 4099-8198 (large prime factors) for the estimators; distinct by case')
    core.prove(res, PID, MODULES, clean=(tier == 'thorough'))
    n = 25 if tier == 'quick' else 1500
    explore(res, random.Random(seed), n)
    res.disagreements_checked = res.traces
    res.trusted += ['hand-written generic-scalar model FF.Spectral.synth evaluated at Float and compared with the implementation at 1e-9, phases scripted '
                    'through np.random.randn', 'scipy.signal.periodogram / welch are external: ffpack forwards to them unchanged (checked), their '
                    'output is checked against the energy identities on the tested series; the theorems are about the mathematical objects',
                    'the Welch estimate of Proofs/C17Welch.lean (segments, mean removal, periodic Hann window, density scaling, averaging) is written out in numpy and compared with welchSpectrum at 1e-9 on every tested series']
    return core.finish(res)


def replay(path):
    d = json.load(open(path))
    f = d.get('failure')
    if not f:
        print('replay file names a broken obligation/tie, no input to replay:', json.dumps(d.get('no_longer_checks'))[:800])
        return 1
    print('recorded:', json.dumps(f, default=str)[:1500])
    return 1
