"""C15 — seeded runs are reproducible, through the argument and through the global config (DESIGN §5 C15)"""
import json
import os
import random
from unittest import mock
import core

PID = 'C15'
MODULES = ['FFVerif.Proofs.C15']
DRAWS = ['normal', 'uniform', 'randint', 'randn', 'rand', 'random', 'standard_normal', 'random_sample', 'choice',
         'multivariate_normal', 'permutation', 'shuffle', 'exponential']


def apis():
    """name -> (callable(seedArg) -> output, kind)"""
    core.import_impl()
    import numpy as np
    from scipy import stats
    from ffpack import lsg, rpm, rrm
    g = lambda X: 3.0 - X[0] - X[1]
    nat = lambda seed: rpm.NatafTransformation([stats.norm(), stats.norm(1, 2)], [[1.0, 0.0], [0.0, 1.0]], randomSeed=seed)

    def mh(seed):
        s = rpm.MetropolisHastingsSampler(initialVal=[0.0], targetPdf=lambda x: float(np.exp(-x[0] ** 2 / 2)),
                                          proposalCSampler=lambda c: c + np.random.uniform(-1, 1), randomSeed=seed)
        return [s.getSample() for _ in range(3)]

    start_arr = np.array([0.25])        # ONE float64 start-point array of the caller, handed to every sampler built below

    def mh_arr(seed):
        s = rpm.MetropolisHastingsSampler(initialVal=start_arr, targetPdf=lambda x: float(np.exp(-x[0] ** 2 / 2)),
                                          proposalCSampler=lambda c: c + np.random.uniform(-1, 1), randomSeed=seed)
        return [s.getSample() for _ in range(3)]

    def au(seed):
        s = rpm.AuModifiedMHSampler(initialVal=[0.0, 0.5], targetPdf=[lambda x: float(np.exp(-x * x / 2))] * 2,
                                    proposalCSampler=[lambda c: c + np.random.uniform(-1, 1)] * 2, randomSeed=seed)
        return [s.getSample() for _ in range(3)]
    return {
        'randomWalkUniform': lambda seed: lsg.randomWalkUniform(5, 2, randomSeed=seed),
        'arNormal': lambda seed: lsg.arNormal(6, [1.0], [0.5], 0.0, 1.0, randomSeed=seed),
        'maNormal': lambda seed: lsg.maNormal(6, 0.5, [0.5], 0.0, 1.0, randomSeed=seed),
        'armaNormal': lambda seed: lsg.armaNormal(6, [1.0], [0.5], [0.3], 0.0, 1.0, randomSeed=seed),
        'arimaNormal': lambda seed: lsg.arimaNormal(6, 0.5, [0.5], [0.3], 0.0, 1.0, randomSeed=seed),
        'spectralRepresentation': lambda seed: [list(a) for a in lsg.spectralRepresentation(8, 2, [1.0, 2.0, 3.0], [1.0, 2.0, 1.0], randomSeed=seed)],
        # thinned frequency grid (freqBandwidth of two grid steps): the other branch of the phase generation
        'spectralRepresentation(freqBandwidth)': lambda seed: [list(a) for a in lsg.spectralRepresentation(8, 2, [1.0, 2.0, 3.0, 4.0, 5.0], [1.0, 2.0, 1.0, 0.5, 0.2],
                                                                                                            freqBandwidth=2.0, randomSeed=seed)],
        'NatafTransformation.getSample': lambda seed: list(nat(seed).getSample()),
        'MetropolisHastingsSampler': mh,
        'MetropolisHastingsSampler(start point = the same float64 array in every call)': mh_arr,
        'AuModifiedMHSampler': au,
        'subsetSimulation': lambda seed: repr(rrm.subsetSimulation(2, g, [stats.norm(), stats.norm()], np.eye(2), 20, 3, probLevel=0.5,
                                                                  randomSeed=seed)),
    }, {
        'NatafTransformation': lambda seed: nat(seed),
        # marginals for which both fsolve starts fail and the constructor falls back on its grid search for the latent correlation
        'NatafTransformation(fallback-search)': lambda seed: rpm.NatafTransformation([stats.lognorm(1.5), stats.weibull_min(0.5)],
                                                                                      [[1.0, -0.7], [-0.7, 1.0]], randomSeed=seed),
        'MetropolisHastingsSampler()': lambda seed: rpm.MetropolisHastingsSampler(initialVal=[0.0], targetPdf=lambda x: 1.0,
                                                                                   proposalCSampler=lambda c: c, randomSeed=seed),
        'AuModifiedMHSampler()': lambda seed: rpm.AuModifiedMHSampler(initialVal=[0.0], targetPdf=[lambda x: 1.0],
                                                                       proposalCSampler=[lambda c: c], randomSeed=seed),
    }


class Spy:
    """wrap np.random.seed and the draw functions from outside; record the events of each operation"""

    def __init__(self):
        import numpy as np
        self.np = np
        self.events = []
        self.patches = []

    def __enter__(self):
        np = self.np
        real_seed = np.random.seed

        def seed(s=None):
            self.events.append('sN' if s is None else f's{int(s)}')
            return real_seed(s)
        self.patches.append(mock.patch.object(np.random, 'seed', side_effect=seed))
        for name in DRAWS:
            if hasattr(np.random, name):
                real = getattr(np.random, name)

                def mk(real):
                    def w(*a, **k):
                        self.events.append('d')
                        return real(*a, **k)
                    return w
                self.patches.append(mock.patch.object(np.random, name, side_effect=mk(real)))
        for p in self.patches:
            p.start()
        return self

    def __exit__(self, *a):
        for p in self.patches:
            p.stop()

    def take(self):
        ev, self.events = self.events, []
        return ev


def fail(res, clause, case, out, sig=None):
    res.failures.append({'signature': sig or 'C15:' + clause + ':' + json.dumps(case), 'clause': clause, 'input': case, 'impl_output': out})


def run_sequence(seq, A, Cn, prior):
    """execute an operation sequence from a given prior generator state; returns outputs and event traces"""
    import numpy as np
    from ffpack.config import globalConfig
    np.random.seed(prior)
    np.random.uniform(size=prior % 7)
    outs, traces = [], []
    with Spy() as spy:
        for op in seq:
            if op[0] == 'set':
                globalConfig.setSeed(op[1])
                outs.append(None)
            elif op[0] == 'api':
                outs.append(json.dumps(A[op[1]](op[2]), default=lambda o: o.tolist() if hasattr(o, 'tolist') else repr(o)))
            else:
                Cn[op[1]](op[2])
                outs.append(None)
            traces.append(spy.take())
    globalConfig.seed = None
    return outs, traces


def enc_op(op, trace):
    nd = sum(1 for e in trace if e == 'd')
    if op[0] == 'set':
        if op[1] is not None and not (isinstance(op[1], int) and not isinstance(op[1], bool)):
            return 'con:other'          # an argument setSeed ignores: no seeding event, no change of state (same contract as an un-seeded construction)
        return 'set:none' if op[1] is None else f'set:{op[1]}'
    arg = op[2]
    import numbers
    kind = 'int' if isinstance(arg, numbers.Integral) and not isinstance(arg, bool) else ('none' if arg is None else 'other')
    arg = int(arg) if kind == 'int' else arg
    if op[0] == 'api':
        return f'api:int:{arg}:{nd}' if kind == 'int' else f'api:{kind}:{nd}'
    return f'con:int:{arg}' if kind == 'int' else f'con:{kind}'


def explore(res, rng, n):
    A, Cn = apis()
    names = sorted(A)
    # (1) same integer seed, different prior generator states -> identical output
    for name in names:
        import numpy as _np
        for seed in (0, 7, 12345, 2 ** 31, 2 ** 32 - 1, _np.int64(7), _np.int32(11), _np.uint8(3)):
            o1, _ = run_sequence([('api', name, seed)], A, Cn, prior=11)
            o2, _ = run_sequence([('api', name, seed)], A, Cn, prior=222)
            res.evaluations += 1
            res.nontrivial.add(('seeded', name, int(seed), type(seed).__name__))
            res.stat('seeded_call')
            if o1 != o2:
                fail(res, 'two calls with the same integer seed differ', {'api': name, 'seed': int(seed), 'seed_type': type(seed).__name__}, [o1[0][:120], o2[0][:120]],
                     sig=f'C15:seeded-call-not-reproducible:{name}')
    # (2) random operation sequences: protocol conformance + global-seed replay + inert construction
    reqs, meta = [], []
    # corpus first: for every API, a call whose integer seed EQUALS the installed global seed, after something else has drawn
    corpus_seqs = [[('set', 7), ('api', 'arNormal', None), ('api', nm, 7)] for nm in names]
    for i in range(n + len(corpus_seqs)):
        if i < len(corpus_seqs):
            seq = corpus_seqs[i]
            gs = 7
        else:
            k = rng.choice([2, 3, 4, 6])
            gs = rng.choice([0, 3, 99, 2 ** 31 - 1, 2 ** 31, 3000000000, 2 ** 32 - 1])
            seq = [('set', gs)]
            for _ in range(k):
                r = rng.random()
                if r < 0.6:
                    seq.append(('api', rng.choice(names), rng.choice([None, None, None, 'x', 1.5])))
                elif r < 0.8:
                    seq.append(('con', rng.choice(sorted(Cn)), rng.choice([None, None, 'x'])))
                elif r < 0.9:
                    seq.append(('api', rng.choice(names), rng.choice([4, 17, 2 ** 31 + 5, gs, gs])))      # incl. the installed global seed itself
                else:
                    seq.append(('set', rng.choice([5, None, 2 ** 32 - 1, 2.5, '7', 2.5])))        # incl. arguments that setSeed ignores
        o1, t1 = run_sequence(seq, A, Cn, prior=31 + i)
        o2, t2 = run_sequence(seq, A, Cn, prior=977 + i)
        res.evaluations += 1
        res.nontrivial.add(json.dumps(seq))
        res.traces += 1
        case = {'sequence': seq}
        if i < 3:
            res.samples.append(case)
        has_entropy = any(op[0] == 'set' and op[1] is None for op in seq)
        if o1 != o2 and not has_entropy:
            bad = [j for j, (a, b) in enumerate(zip(o1, o2)) if a != b]
            fail(res, 'the global-config seed does not govern un-seeded calls (same sequence, different prior state, different output)',
                 case, {'first_differing_op': seq[bad[0]]}, sig='C15:global-seed-not-governing:' + str(seq[bad[0]][1]))
        reqs.append('c15 ' + ';'.join(enc_op(op, tr) for op, tr in zip(seq, t1)) + ' ' + ';'.join(','.join(tr) if tr else '-' for tr in t1))
        meta.append(case)
        # inert construction: insert an un-seeded construction in the middle and compare what follows
        if not has_entropy:
            j = rng.randrange(1, len(seq) + 1)
            seq3 = seq[:j] + [('con', rng.choice(sorted(Cn)), None)] + seq[j:]
            o3, _ = run_sequence(seq3, A, Cn, prior=31 + i)
            res.evaluations += 1
            if o3[:j] + o3[j + 1:] != o1:
                fail(res, 'constructing a randomised object disturbed a seeded computation in progress', {'sequence': seq3}, None,
                     sig='C15:construction-disturbs:' + seq3[j][1])
    # (3) long-lived objects: "setting the seed and repeating the same sequence of calls repeats the same outputs" also when the
    # calls go to ONE transformation object that has been used before (its samples are a function of the stream only)
    import numpy as np
    from scipy import stats
    from ffpack import rpm, lsg
    from ffpack.config import globalConfig
    nat_obj = rpm.NatafTransformation([stats.norm(), stats.expon(), stats.norm(1, 2)], [[1.0, 0.3, 0.0], [0.3, 1.0, 0.2], [0.0, 0.2, 1.0]])
    for sd in (5, 0, 2 ** 31):
        runs = []
        for rep in range(3):
            np.random.seed(1000 + rep)
            np.random.uniform(size=rep + 1)
            globalConfig.setSeed(sd)
            a = [list(map(float, nat_obj.getSample())) for _ in range(rep + 1)][0]
            w = lsg.randomWalkUniform(4, 2)
            runs.append((a, json.dumps(w, default=lambda o: o.tolist())))
        globalConfig.seed = None
        res.evaluations += 1
        res.stat('long_lived_object')
        if any(r[0] != runs[0][0] for r in runs):
            fail(res, 'one transformation object: the first sample after setSeed(s) differs between repetitions', {'seed': sd},
                 [r[0] for r in runs], sig='C15:long-lived-object:NatafTransformation.getSample')
    for case, a in zip(meta, core.driver_batch(reqs)):
        if a != 'ok':
            ops = [op for op in case['sequence']]
            fail(res, 'event trace violates the seeding contract (seed called without an integer seed, or not called with one)', case, a,
                 sig='C15:protocol:' + ','.join(sorted({op[1] for op in ops if op[0] != 'set' and not isinstance(op[2], int)})))


def run(tier, seed):
    res = core.Result(PID, tier, seed)
    res.rule = ('all randomised APIs (spectral synthesis with and without frequency thinning) with integer seeds 0 .. 2^32-1 from two different prior generator states; random operation sequences '
                '(setSeed, un-seeded / non-integer / integer-seeded calls, constructions) replayed from two prior states, with and '
                'without an inserted construction; distinct by sequence')
    core.prove(res, PID, MODULES, clean=(tier == 'thorough'))
    n = 40 if tier == 'quick' else 1500
    explore(res, random.Random(seed), n)
    res.disagreements_checked = res.traces
    res.trusted += ['state machine FF.Seed tied to the implementation by protocol conformance of the observed np.random.seed / draw events '
                    '(wrapped from outside with unittest.mock) and by black-box replay',
                    'numpy\'s generator: seed(n) determines the stream, seed(None) takes OS entropy']
    return core.finish(res)


def replay(path):
    d = json.load(open(path))
    f = d.get('failure')
    if not f:
        print('replay file names a broken obligation/tie, no input to replay:', json.dumps(d.get('no_longer_checks'))[:800])
        return 1
    print('recorded:', json.dumps(f, default=str)[:1500])
    A, Cn = apis()
    if 'sequence' in f['input']:
        seq = [tuple(x) for x in f['input']['sequence']]
        o1, t1 = run_sequence(seq, A, Cn, prior=31)
        o2, t2 = run_sequence(seq, A, Cn, prior=977)
        print('replayed: outputs equal =', o1 == o2, 'events', t1)
        return 0 if o1 == o2 else 1
    if 'api' in f['input']:
        o1, _ = run_sequence([('api', f['input']['api'], f['input']['seed'])], A, Cn, prior=11)
        o2, _ = run_sequence([('api', f['input']['api'], f['input']['seed'])], A, Cn, prior=222)
        print('replayed: outputs equal =', o1 == o2)
        return 0 if o1 == o2 else 1
    return 1
