"""C16 — generated ARMA-family and random-walk sequences obey their model equations (DESIGN §5 C16)"""
import json
import os
import random
from unittest import mock
import core
from core import enc_list

PID = 'C16'
MODULES = ['FFVerif.Proofs.C16']


def ints(rng, k, lo=-5, hi=5):
    return [rng.randint(lo, hi) for _ in range(k)]


def fail(res, clause, api, case, out):
    res.failures.append({'signature': f'C16:{api}:{clause}:' + json.dumps(case), 'clause': clause, 'api': api, 'input': case,
                         'impl_output': out})


def explore(res, rng, n):
    core.import_impl()
    import numpy as np
    from ffpack import lsg
    reqs, meta = [], []
    for i in range(n):
        N = rng.choice([1, 2, 3, 4, 5, 8, 12, 20])
        p, q = rng.choice([1, 1, 2, 3, 4]), rng.choice([1, 1, 2, 3, 4])
        eps = ints(rng, N, -9, 9)
        phis, thetas, c = ints(rng, p, -3, 3), ints(rng, q, -3, 3), rng.randint(-4, 4)
        obs = ints(rng, p, -9, 9)
        nobs = rng.choice([0, 1, p, p + 2])
        obs2 = ints(rng, nobs, -9, 9)
        # coefficient / observation vectors as lists, tuples or arrays ("1d array" in the documentation)
        kindc = i % 4
        conv = {0: list, 1: list, 2: (lambda v: np.array(v, dtype=float)), 3: (lambda v: np.array(v, dtype=np.int64))}[kindc]
        conv_obs = None
        if i % 8 == 5:
            conv = list
            conv_obs = (lambda v: np.array(v, dtype=np.int8))        # observations as int8 (values fit, the recurrence does not)
            obs, obs2 = [100, 90][:p] + [80] * max(0, p - 2), ([100, 90, 80, 70][:nobs])
            phis = [2, -1, 1, 1][:p]
            res.stat('coefficients_as_int8_array')
        res.stat('coefficients_as_%s' % {0: 'list', 1: 'list', 2: 'float_array', 3: 'int_array'}[kindc])
        with mock.patch.object(np.random, 'normal', side_effect=lambda mu, sigma, size: list(eps[:size])), \
                mock.patch.object(np.random, 'seed', side_effect=lambda s=None: None):
            outs = {}
            for k_, call_, args_ in (
                    ('ar', lambda: lsg.arNormal(N, (conv_obs or conv)(obs), conv(phis), 0, 1), f'{N} {enc_list(obs)} {enc_list(phis)} {enc_list(eps)}'),
                    ('ma', lambda: lsg.maNormal(N, c, conv(thetas), 0, 1), f'{N} {c} {enc_list(thetas)} {enc_list(eps)}'),
                    ('arma', lambda: lsg.armaNormal(N, (conv_obs or conv)(obs2), conv(phis), conv(thetas), 0, 1),
                     f'{N} {enc_list(obs2)} {enc_list(phis)} {enc_list(thetas)} {enc_list(eps)}'),
                    ('arima', lambda: lsg.arimaNormal(N, c, conv(phis), conv(thetas), 0, 1),
                     f'{N} {c} {enc_list(phis)} {enc_list(thetas)} {enc_list(eps)}')):
                try:
                    outs[k_] = (call_(), args_)
                except Exception as e:  # noqa
                    fail(res, 'valid arguments raised ' + type(e).__name__ + ': ' + str(e)[:80], k_ + 'Normal', args_, None)
        for k, (out, args) in outs.items():
            res.evaluations += 1
            res.nontrivial.add((k, args))
            res.stat(k + ('_shorter_than_order' if N <= max(p, q) else '_longer_than_order'))
            o = [int(round(float(v))) for v in out]
            reqs.append(f'{k} {args}')
            meta.append(('corr', k, args, o))
            reqs.append(f'c16{k} {args} {enc_list(o)}')
            meta.append(('pred', k, args, o))
        if i < 3:
            res.samples.append({'N': N, 'obs': obs, 'phis': phis, 'thetas': thetas, 'c': c, 'eps': eps})
        # random walk with a scripted randint stream
        dim = rng.choice([1, 2, 3, 5])
        rs = [rng.randrange(2 * dim) for _ in range(N)]
        it = iter(rs)
        if i % 25 == 3:
            N = 300
            rs = [rng.choice([0, 0, 0, 1]) if dim == 1 else rng.choice([0, 0, 0, 0, 1, 2]) for _ in range(N)]     # drifts beyond +-128
            it = iter(rs)
            res.stat('walk_long_drift')

        def scripted_randint(hi, size=None, **kw):
            # (a vectorised implementation may ask for all steps at once)
            return next(it) if size is None else np.array([next(it) for _ in range(int(np.prod(size)))]).reshape(size)
        with mock.patch.object(np.random, 'randint', side_effect=scripted_randint), \
                mock.patch.object(np.random, 'seed', side_effect=lambda s=None: None):
            path = lsg.randomWalkUniform(N, dim)
        path = [[int(v) for v in row] for row in path]
        res.evaluations += 1
        enc_path = ';'.join(enc_list(r) for r in path)
        reqs.append(f'walk {dim} ' + (','.join(map(str, rs)) if rs else '-'))
        meta.append(('corrwalk', 'walk', {'dim': dim, 'rs': rs}, enc_path))
        reqs.append(f'c16walk {N} {dim} {enc_path}')
        meta.append(('pred', 'walk', {'dim': dim, 'rs': rs}, enc_path))
    for (kind, api, case, out), a in zip(meta, core.driver_batch(reqs)):
        if kind == 'corr':
            res.traces += 1
            if enc_list(out) != a:
                res.disagreements.append({'what': api + 'Normal vs model', 'input': case, 'impl': enc_list(out), 'model': a})
        elif kind == 'corrwalk':
            res.traces += 1
            if out != a:
                res.disagreements.append({'what': 'randomWalkUniform vs model', 'input': case, 'impl': out, 'model': a})
        elif a != 'ok':
            fail(res, a, api, case, out)
    # ---- with the real generator: the noise is normal( mu, sigma, N ) of that seed; sigma = 0 is deterministic
    # every generator, seeds incl. 0 and 2^32 - 1, from a disturbed prior generator state
    gens = {'arNormal': lambda N, mu, sg, sd: lsg.arNormal(N, [1.0, 2.0], [0.5, -0.25], mu, sg, randomSeed=sd),
            'maNormal': lambda N, mu, sg, sd: lsg.maNormal(N, 0.5, [0.4], mu, sg, randomSeed=sd),
            'armaNormal': lambda N, mu, sg, sd: lsg.armaNormal(N, [1.0, 2.0], [0.5, -0.25], [0.4], mu, sg, randomSeed=sd),
            'arimaNormal': lambda N, mu, sg, sd: lsg.arimaNormal(N, 0.5, [0.5], [0.4], mu, sg, randomSeed=sd)}
    for gname, gf in sorted(gens.items()):
        for sd in (0, 1, 2 ** 32 - 1, rng.randrange(1000), np.int64(7), np.uint8(3)):
            N, mu, sg = rng.choice([5, 12]), rng.choice([0.0, 1.5]), rng.choice([1.0, 2.0])
            calls = []
            real = np.random.normal

            def spy2(*a, **k):
                v = real(*a, **k)
                calls.append((a, np.array(v, copy=True)))
                return v
            np.random.seed(4242 + int(sd) % 7)
            np.random.uniform(size=3)
            with mock.patch.object(np.random, 'normal', side_effect=spy2):
                gf(N, mu, sg, sd)
            res.evaluations += 1
            res.stat('real_generator_' + gname)
            np.random.seed(int(sd))
            want_eps = np.random.normal(mu, sg, N)
            if len(calls) != 1 or not np.array_equal(calls[0][1], want_eps):
                fail(res, 'noise is not normal(mu, sigma, numSteps) of the given seed', gname, {'N': N, 'seed': int(sd), 'seed_type': type(sd).__name__, 'mu': mu, 'sigma': sg}, None)
    # zero spread, non-zero noise mean: the deterministic recurrence with e_t = mu (through the model, integers)
    for gname in ('ar', 'ma', 'arma', 'arima'):
        for mu in (2, -3):
            N = rng.choice([6, 12])
            phis, thetas, c, obs = [1, -1], [2, 1], 1, [3, -2]
            if gname == 'ar':
                out, args = lsg.arNormal(N, obs, phis, mu, 0.0, randomSeed=5), f'{N} {enc_list(obs)} {enc_list(phis)} {enc_list([mu] * N)}'
            elif gname == 'ma':
                out, args = lsg.maNormal(N, c, thetas, mu, 0.0, randomSeed=5), f'{N} {c} {enc_list(thetas)} {enc_list([mu] * N)}'
            elif gname == 'arma':
                out, args = lsg.armaNormal(N, obs, phis, thetas, mu, 0.0, randomSeed=5), f'{N} {enc_list(obs)} {enc_list(phis)} {enc_list(thetas)} {enc_list([mu] * N)}'
            else:
                out, args = lsg.arimaNormal(N, c, phis, thetas, mu, 0.0, randomSeed=5), f'{N} {c} {enc_list(phis)} {enc_list(thetas)} {enc_list([mu] * N)}'
            res.evaluations += 1
            res.stat('zero_spread_nonzero_mean')
            want = core.driver_batch([f'{gname} {args}'])[0]
            got = enc_list([int(round(float(v))) for v in out]) if all(abs(float(v) - round(float(v))) < 1e-9 for v in out) else repr(list(out))[:200]
            if got != want:
                fail(res, 'zero spread: output is not the deterministic recurrence with e_t = mu', gname + 'Normal', {'N': N, 'mu': mu, 'args': args}, [got, want])
    for j in range(max(3, n // 20)):
        N, seed = rng.choice([5, 12]), rng.choice([0, rng.randrange(1000)])
        mu, sigma = rng.choice([0.0, 1.5]), rng.choice([0.0, 1.0, 2.0])
        phis, thetas = [0.5, -0.25], [0.4]
        calls = []
        real = np.random.normal

        def spy(*a, **k):
            v = real(*a, **k)
            calls.append((a, np.array(v, copy=True)))
            return v
        np.random.seed(99 + j)
        with mock.patch.object(np.random, 'normal', side_effect=spy):
            out = lsg.armaNormal(N, [1.0, 2.0], phis, thetas, mu, sigma, randomSeed=seed)
        res.evaluations += 1
        np.random.seed(seed)
        want_eps = np.random.normal(mu, sigma, N)
        if len(calls) != 1 or tuple(calls[0][0]) != (mu, sigma, N) or not np.array_equal(calls[0][1], want_eps):
            fail(res, 'noise is not normal(mu, sigma, numSteps) of the given seed', 'armaNormal', {'N': N, 'seed': seed, 'mu': mu, 'sigma': sigma}, None)
        e = calls[0][1]
        for t in range(2, N):
            w = e[t] + sum(phis[k] * out[t - 1 - k] for k in range(2) if t - 1 - k >= 0) + sum(thetas[k] * e[t - 1 - k] for k in range(1) if t - 1 - k >= 0)
            if abs(out[t] - w) > 1e-9 * (1 + abs(w)):
                fail(res, 'recurrence with the real noise stream', 'armaNormal', {'N': N, 'seed': seed, 'mu': mu, 'sigma': sigma, 't': t}, [out[t], w])
        if sigma == 0.0 and any(abs(v - mu) > 0 for v in e):
            fail(res, 'zero spread is not deterministic', 'armaNormal', {'seed': seed}, None)


def run(tier, seed):
    res = core.Result(PID, tier, seed)
    res.rule = ('random orders 1-4, lengths 1-20 (shorter and longer than the order), integer coefficients, observations and scripted '
                'integer noise (exact arithmetic); scripted randint streams for the walk; real generator for the noise-stream clause; '
                'distinct by (function, arguments)')
    core.prove(res, PID, MODULES, clean=(tier == 'thorough'))
    n = 300 if tier == 'quick' else 10000
    explore(res, random.Random(seed), n)
    if (res.proof_problems or res.disagreements) and not res.failures:
        explore(res, random.Random(seed + 7919), 4 * n)
    res.disagreements_checked = res.traces
    res.trusted += ['hand-written models FF.Arma.* of the four lag loops and the walk decode, tied by exact correspondence with np.random.normal / '
                    'randint replaced by scripted integer streams (unittest.mock, from outside the package)',
                    'numpy\'s bit generator is external: only "the noise is normal(mu, sigma, N) drawn after seed(randomSeed)" is checked']
    return core.finish(res)


def replay(path):
    d = json.load(open(path))
    f = d.get('failure')
    if not f:
        print('replay file names a broken obligation/tie, no input to replay:', json.dumps(d.get('no_longer_checks'))[:800])
        return 1
    print('recorded:', json.dumps(f)[:1200])
    return 1
