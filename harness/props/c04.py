"""C04 — counting methods agree on closed histories; repeating count ignores the cut (DESIGN §5 C04)"""
import json
import os
import random
import core
import cyc
from core import enc_list, enc_cycs, enc_table

PID = 'C04'
MODULES = ['FFVerif.Proofs.C04', 'FFVerif.Proofs.C03Reverse', 'FFVerif.Proofs.C04Full']


def close_at_extreme(rng, h):
    if rng.random() < 0.5:
        m = max(h) + rng.choice([0, 0, 1])
    else:
        m = min(h) - rng.choice([0, 0, 1])
    return [m] + h + [m]


def rotations(p):
    """all cuts of the closed period p (p[0] == p[-1])"""
    body = p[:-1]
    for k in range(1, len(body)):
        q = body[k:] + body[:k]
        yield q + [q[0]]


def explore(res, rng, n, exhaustive=None):
    cases = []
    for _ in range(n):
        h, s = core.gen_history(rng, maxlen=22)
        cases.append((h, s))
    if exhaustive:
        cases += [(h, 0) for h in core.small_histories(*exhaustive)]
    cyc.micro_stream(res, ['rainflow', 'rangepair', 'repeat', 'fourpoint'], rng, max(30, n // 25))
    cyc.extreme_scale_stream(res, ['rainflow', 'rangepair', 'repeat', 'fourpoint'], rng, max(12, n // 60))
    cyc.narrow_dtype_stream(res, ['rainflow', 'rangepair', 'repeat', 'fourpoint'], rng, max(10, n // 80))
    cyc.config_cycles_stream(res, ['rainflow', 'rangepair', 'repeat', 'fourpoint'], rng, max(16, n // 60))
    cyc.caller_array_stream(res, ['rainflow', 'rangepair', 'repeat', 'fourpoint'], rng, max(15, n // 60))
    reqs, meta = [], []
    for idx, (h, s) in enumerate(cases):
        if len(h) < 2:
            continue
        if cyc.nontrivial_key(h):
            res.nontrivial.add(tuple(h))
        # ---- clauses for any history: (d) residue, (e) no ties, (f) containment
        if len(h) >= 4:
            rf, rp, fp = (cyc.run_impl(k, h, s) for k in ('rainflow', 'rangepair', 'fourpoint'))
            res.evaluations += 1
            res.stat('any_history')
            for nm_, o_ in (('rainflow', rf), ('rangepair', rp), ('fourpoint', fp)):
                if 'error' in o_:
                    res.failures.append({'signature': f'C04:any:raised:{nm_}:{enc_list(h)}', 'clause': f'{cyc.API[nm_]} raised on a valid history (at least four samples): ' + o_['error'],
                                         'api': cyc.API[nm_], 'input': h, 'scale': s})
            if not any('error' in o for o in (rf, rp, fp)):
                reqs.append(f'c04any {enc_list(h)} {enc_cycs(rf["seq"])} {enc_table(rf["table"])} {enc_cycs(rp["seq"])} {enc_cycs(fp["seq"])}')
                meta.append(('any', h, s, None))
                reqs.append(f'c04notie {enc_list(h)}')
                meta.append(('stat-notie', h, s, None))
        # ---- closed at a global extreme: (a), (b)
        hc = close_at_extreme(rng, h)
        if len(set(hc)) > 1:
            outs = {k: cyc.run_impl(k, hc, s) for k in ('rainflow', 'rangepair', 'repeat', 'fourpoint')}
            res.evaluations += 1
            res.stat('closed_at_extreme')
            if 'error' in outs['fourpoint'] and len(hc) >= 4:
                res.failures.append({'signature': f'C04:closed:raised:fourpoint:{enc_list(hc)}', 'clause': 'fourPointRainflowCounting raised on a closed history of at least four samples: ' + outs['fourpoint']['error'],
                                     'api': 'fourPointRainflowCounting', 'input': hc, 'scale': s})
            if not any('error' in outs[k] for k in ('rainflow', 'rangepair', 'repeat')):
                t4 = enc_table(outs['fourpoint']['table']) if 'error' not in outs['fourpoint'] else '0:0'
                reqs.append(f'c04closed {enc_list(hc)} {enc_table(outs["rainflow"]["table"])} '
                            f'{enc_table(outs["rangepair"]["table"])} {enc_table(outs["repeat"]["table"])} {t4}')
                meta.append(('closed', hc, s, None))
            else:
                res.failures.append({'signature': f'C04:closed:raised:{enc_list(hc)}', 'clause': 'a counter raised on a closed history',
                                     'input': hc, 'scale': s, 'impl_output': str({k: v.get('error') for k, v in outs.items()})})
        # ---- (c) the repeating count does not depend on the cut
        p = h + [h[0]]
        if len(set(p)) > 1 and len(p) <= 14:
            base = cyc.run_impl('repeat', p, s)
            for q in rotations(p):
                o = cyc.run_impl('repeat', q, s)
                res.evaluations += 1
                res.stat('rotation')
                if 'error' in base or 'error' in o or base['table'] != o['table']:
                    res.failures.append({'signature': f'C04:repeat-cut:{enc_list(p)}->{enc_list(q)}', 'clause': 'cut-independence',
                                         'api': 'astmRainflowRepeatHistoryCounting', 'input': p, 'scale': s, 'rotated': q,
                                         'impl_output': cyc.impl_line(base) + ' | ' + cyc.impl_line(o)})
    # ---- changed globalConfig.atol (read at call time by every counter): closed histories on a 0.01 grid whose three tables
    # agree at the default number of digits agree at any other number of digits
    core.import_impl()
    from ffpack import lcc
    tab = lambda f, data: [round(float(a), 9) for r in f(list(data), aggregate=True) for a in r]
    k = 0
    for h, s in cases:
        if k >= max(25, n // 30):
            break
        if s != 0 or len(h) < 3 or max(abs(v) for v in h) > 4096:
            continue
        hc = close_at_extreme(rng, h)
        if len(set(hc)) < 3:
            continue
        k += 1
        data = [v / 100.0 for v in hc]
        fs = (lcc.astmRainflowCounting, lcc.astmRangePairCounting, lcc.astmRainflowRepeatHistoryCounting)
        digits = (sum(hc) + k) % 2
        try:
            base = [tab(f, data) for f in fs]
            if base[0] != base[1] or base[0] != base[2]:
                continue
            with cyc.with_atol(digits):
                got = [tab(f, data) for f in fs]
        except Exception as e:  # noqa
            res.failures.append({'signature': f'C04:closed:raised:{type(e).__name__}:{enc_list(hc)}',
                                 'clause': 'a counter raised on a closed history (0.01 grid): ' + type(e).__name__ + ' ' + str(e)[:80],
                                 'input': hc, 'scale': 'x 0.01', 'atol_digits': digits})
            continue
        res.evaluations += 1
        res.stat('config_atol_%d' % digits)
        if got[0] != got[1] or got[0] != got[2]:
            res.failures.append({'signature': f'C04:closed:config-atol:{enc_list(hc)}:{digits}',
                                 'clause': 'closed history: rainflow / range-pair / repeating tables differ after globalConfig.atol = %d' % digits,
                                 'input': hc, 'scale': 'x 0.01', 'atol_digits': digits, 'impl_output': [g[:8] for g in got]})
    for (kind, h, s, _), a in zip(meta, core.driver_batch(reqs)):
        if kind == 'stat-notie':
            res.stat('no_ties' if a == '1' else 'with_ties')
        elif a != 'ok':
            res.failures.append({'signature': f'C04:{kind}:{a}:{enc_list(h)}', 'clause': a, 'input': h, 'scale': s, 'kind': kind})
    res.samples += [{'history': h, 'scale_2^-s': s} for h, s in cases[:3]]


def constant_history(res):
    """a constant history starts and ends at its global maximum: rainflow reports a zero-range half cycle, the others nothing"""
    core.import_impl()
    from ffpack import lcc
    for h in ([5.0, 5.0, 5.0, 5.0], [0.0, 0.0]):
        res.evaluations += 1
        res.stat('constant_history')
        try:
            ts = [f(list(h), aggregate=True) for f in (lcc.astmRainflowCounting, lcc.astmRangePairCounting, lcc.astmRainflowRepeatHistoryCounting)]
        except Exception as e:  # noqa
            res.failures.append({'signature': 'C04:closed:constant-history:raised', 'clause': 'a counter raised on a constant history ' + repr(e)[:80], 'input': h})
            continue
        if not (ts[0] == ts[1] == ts[2]):
            res.failures.append({'signature': 'C04:closed:constant-history', 'clause': 'closed history: rainflow / range-pair / repeating tables differ',
                                 'input': h, 'impl_output': ts})


def run(tier, seed):
    res = core.Result(PID, tier, seed)
    res.rule = ('random tie-rich histories: as they are (clauses d,e,f), closed at a global extreme (a,b), closed into a period '
                'and cut at every point (c); non-trivial = at least one interior reversal; distinct by value tuple')
    core.prove(res, PID, MODULES, clean=(tier == 'thorough'))
    n = 1500 if tier == 'quick' else 30000
    ex = (6, 4) if tier == 'quick' else (8, 5)
    explore(res, random.Random(seed), n, exhaustive=ex)
    constant_history(res)
    res.notes.append('all histories of length <= %d over %d values enumerated in addition (a test)' % ex)
    if res.proof_problems and not res.failures:
        explore(res, random.Random(seed + 7919), 4 * n)
    res.disagreements_checked = res.evaluations
    res.traces = res.evaluations
    res.trusted += ['models of the four counters tied to /repo/src by the exact correspondence of check C02; clause (d) takes the '
                    'four-point leftover from the model after checking that its cycle list equals the implementation\'s']
    return core.finish(res)


def replay(path):
    d = json.load(open(path))
    f = d.get('failure')
    if not f:
        print('replay file names a broken obligation/tie, no input to replay:', json.dumps(d.get('no_longer_checks'))[:500])
        return 1
    print('recorded failure:', json.dumps(f)[:1200])
    h, s = f['input'], f.get('scale', 0)
    for k in ('rainflow', 'rangepair', 'repeat', 'fourpoint'):
        if cyc.valid_for(k, h):
            print(k, cyc.impl_line(cyc.run_impl(k, h, s)))
    return 1
