"""C09 — mean-stress corrections satisfy their defining equations, safety factor included (DESIGN §5 C09)"""
import json
import math
import os
import random
import core
import gen

PID = 'C09'
MODULES = ['FFVerif.Proofs.C09']
FNS = {'goodman': 'goodmanCorrection', 'soderberg': 'soderbergCorrection', 'gerber': 'gerberCorrection'}


def admissible(rng):
    hi = rng.choice([1.0, 2.0, 3.5, 10.0, 0.25, 120.0]) * rng.choice([1.0, 1.0, 1.5, 0.7])
    ratio = rng.choice([-1.0, -0.5, 0.0, 0.1, 0.5, 0.9, rng.uniform(-1, 0.99)])
    lo = ratio * hi
    if lo >= hi:
        lo = hi / 2
    if rng.random() < 0.12:
        # a small cycle on a high mean (typical rainflow output): range of 1e-3 .. 1e-9 of the stress level
        hi = rng.choice([300.0, 120.0, 2.5e8, 41.5])
        lo = hi * (1 - rng.choice([1e-3, 6e-6, 1e-7, 1e-9]))
    n = rng.choice([1.0, 1.0, 1.25, 1.5, 2.0, 3.0, rng.uniform(1.0, 4.0)])
    mean = n * (lo + hi) / 2
    strength = max(mean, 0.0) * rng.choice([1.05, 1.3, 2.0, 5.0, 20.0]) + rng.choice([0.01, 0.5, 3.0])
    if rng.random() < 0.3:
        strength = float(int(strength) + 1)
        n = float(int(n))
    return lo, hi, strength, n


def explore(res, rng, n):
    core.import_impl()
    from ffpack import lcc
    tv, reqs, meta = [], [], []
    for i in range(n):
        lo, hi, st, nn = admissible(rng)
        for kind, fname in FNS.items():
            f = getattr(lcc, fname)
            tv.append((fname, (lo, hi, st, nn), (lambda f=f, lo=lo, hi=hi, st=st, nn=nn: f([lo, hi], st, nn))))
            res.evaluations += 1
            res.nontrivial.add((kind, lo, hi, st, nn))
            res.stat('n_eq_1' if nn == 1.0 else 'n_gt_1')
            try:
                s = float(f([lo, hi], st, nn))
            except ValueError:
                res.failures.append({'signature': f'C09:{fname}:rejects-admissible:{lo}:{hi}:{st}:{nn}',
                                     'clause': 'admissible input rejected', 'api': fname, 'input': [lo, hi, st, nn]})
                continue
            reqs.append(('c09ger ' if kind == 'gerber' else 'c09lin ') + ' '.join(str(gen.bits(x)) for x in (lo, hi, st, nn, s)))
            meta.append((fname, (lo, hi, st, nn), s))
            # consequences (metamorphic, on the implementation): homogeneity, monotone in n, ordering
            try:
                s2 = float(f([3 * lo, 3 * hi], 3 * st, nn))
                # (the amplitude ( hi - lo ) / 2 of a narrow range carries the rounding of 3 * lo, 3 * hi: ulp( hi ) / ( hi - lo ) relative)
                if not gen.close(s2, 3 * s, 1e-9 + 4e-16 * max(abs(lo), abs(hi)) / (hi - lo)):
                    res.failures.append({'signature': f'C09:{fname}:homogeneity:{lo}:{hi}:{st}:{nn}', 'clause': 'degree-one homogeneity',
                                         'api': fname, 'input': [lo, hi, st, nn], 'impl_output': [s, s2]})
                if lo + hi > 0:
                    s3 = float(f([lo, hi], 2 * st * 1.5, nn * 1.5)) if True else None
                    s0 = float(f([lo, hi], 2 * st * 1.5, nn))
                    if s3 < s0 * (1 - 1e-12):
                        res.failures.append({'signature': f'C09:{fname}:monotone-n:{lo}:{hi}:{st}:{nn}', 'clause': 'result must grow with n',
                                             'api': fname, 'input': [lo, hi, 3 * st, nn], 'impl_output': [s0, s3]})
            except ValueError:
                pass
        # ---- glue: one float array handed to all three functions twice, numpy float scalars, Python int n
        if i % 4 == 0:
            import numpy as np
            arr = np.array([lo, hi], dtype=float)
            res.stat('shared_ndarray_and_numpy_scalars')
            for rnd in (0, 1):
                for kind, fname in FNS.items():
                    f = getattr(lcc, fname)
                    res.evaluations += 1
                    try:
                        want = float(f([lo, hi], st, nn))
                    except ValueError:
                        continue
                    variants = {'ndarray': lambda: f(arr, st, nn), 'numpy-float-scalars': lambda: f([lo, hi], np.float64(st), np.float64(nn))}
                    if nn == int(nn):
                        variants['int-n'] = lambda: f([lo, hi], st, int(nn))
                    for vn, call in variants.items():
                        try:
                            got = float(call())
                        except Exception as e:  # noqa
                            res.failures.append({'signature': f'C09:{fname}:{vn}:raises:{lo}:{hi}:{st}:{nn}', 'api': fname,
                                                 'clause': f'admissible input rejected when passed as {vn}: {type(e).__name__} {str(e)[:80]}',
                                                 'input': [lo, hi, st, nn]})
                            continue
                        if not gen.close(got, want, 1e-12):
                            res.failures.append({'signature': f'C09:{fname}:{vn}:value:{lo}:{hi}:{st}:{nn}', 'api': fname,
                                                 'clause': f'result depends on how the arguments are passed ({vn}, call round {rnd}): the defining relation is violated',
                                                 'input': [lo, hi, st, nn], 'impl_output': [got, want]})
                    if arr.tolist() != [lo, hi]:
                        res.failures.append({'signature': f'C09:{fname}:ndarray-modified:{lo}:{hi}:{st}:{nn}', 'api': fname,
                                             'clause': 'the stress-range array of the caller was modified', 'input': [lo, hi, st, nn],
                                             'impl_output': arr.tolist()})
                        arr = np.array([lo, hi], dtype=float)
        # ---- a strength read from a float32 material table with the mean stress close to it (1 - sm / su cancels), and safety factors a hair
        # above one (finite-difference steps around n = 1): exactly representable numbers, the result is that of the same numbers as floats
        if i % 5 == 2:
            import numpy as np
            su32 = float(np.float32(rng.choice([400.0, 812.5, 1000.0])))
            hi_s = su32 * rng.choice([0.9998, 0.999, 0.99]) * 2 - 1.0
            rng_s = [1.0, hi_s]
            for fname in FNS.values():
                f = getattr(lcc, fname)
                for nn in (1.0, 1.0 + 2.0 ** -20, 1.0 + 2.0 ** -17, 1.0 + 2.0 ** -24):
                    res.evaluations += 1
                    res.stat('float32_strength_near_mean_and_n_just_above_one')
                    try:
                        want = float(f(list(rng_s), su32, nn))
                        got = float(f(list(rng_s), np.float32(su32), nn))
                        base = float(f(list(rng_s), su32, 1.0))
                    except (ValueError, ZeroDivisionError):
                        continue
                    if not (math.isfinite(want) and math.isfinite(base)):
                        continue
                    if not gen.close(got, want, 1e-9):
                        res.failures.append({'signature': f'C09:{fname}:float32-strength:{rng_s}:{su32}:{nn}', 'api': fname,
                                             'clause': 'value changes when the strength is the same number as a numpy float32 scalar',
                                             'input': [rng_s, su32, nn], 'impl_output': [got, want]})
                    if nn > 1.0 and not (want > base):
                        res.failures.append({'signature': f'C09:{fname}:n-just-above-one:{rng_s}:{su32}:{nn}', 'api': fname,
                                             'clause': 'the corrected amplitude does not grow with a safety factor marginally above one',
                                             'input': [rng_s, su32, nn], 'impl_output': {'n': want, 'n=1': base}})
        # ---- integer / single-precision stress arrays and numpy scalars of every kind: the result is that of the same real numbers
        if i % 5 == 1:
            import numpy as np
            lo_i, hi_i = rng.choice([(15000, 25000), (-100, 100), (100, 200), (11000, 12000), (0, 30000)])
            st_i, n_i = float(rng.choice([40000, 400, 100000, 60000, 400000])), rng.choice([1, 1.0, 2, 3, 1.5])
            res.stat('narrow_integer_and_float32_arrays')
            for kind, fname in FNS.items():
                f = getattr(lcc, fname)
                try:
                    want = float(f([float(lo_i), float(hi_i)], st_i, float(n_i)))
                except (ValueError, ZeroDivisionError):
                    continue
                if not math.isfinite(want):
                    continue            # mean * n = strength exactly: the boundary of the admissible set (the limit is infinite)
                variants = {}
                for dt in (np.int16, np.int32, np.uint8, np.int8, np.float32, np.int64):
                    info = np.iinfo(dt) if np.issubdtype(dt, np.integer) else None
                    if info is None or (info.min <= lo_i and hi_i <= info.max):
                        variants[np.dtype(dt).name + '-array'] = (lambda dt=dt: f(np.array([lo_i, hi_i], dtype=dt), st_i, n_i))
                variants['numpy-int-strength'] = lambda: f([float(lo_i), float(hi_i)], np.int64(int(st_i)), n_i)
                # the strength read from an integer table: the narrowest type that holds it (its square need not fit)
                for dt in (np.int16, np.uint16, np.int32, np.uint32):
                    if st_i <= np.iinfo(dt).max:
                        variants[np.dtype(dt).name + '-strength'] = (lambda dt=dt: f([float(lo_i), float(hi_i)], dt(int(st_i)), n_i))
                        break
                variants['int32-strength'] = lambda: f([float(lo_i), float(hi_i)], np.int32(int(st_i)), n_i)
                variants['float32-scalars'] = lambda: f([float(lo_i), float(hi_i)], np.float32(st_i), np.float32(n_i))
                for vn, call in variants.items():
                    res.evaluations += 1
                    try:
                        got = float(call())
                    except Exception as e:  # noqa
                        res.failures.append({'signature': f'C09:{fname}:{vn}:raises:{lo_i}:{hi_i}:{st_i}:{n_i}', 'api': fname,
                                             'clause': f'admissible input rejected when passed as {vn}: {type(e).__name__} {str(e)[:80]}',
                                             'input': [lo_i, hi_i, st_i, n_i]})
                        continue
                    if not gen.close(got, want, 1e-9):
                        res.failures.append({'signature': f'C09:{fname}:{vn}:value:{lo_i}:{hi_i}:{st_i}:{n_i}', 'api': fname,
                                             'clause': f'defining relation violated when the same numbers are passed as {vn}',
                                             'input': [lo_i, hi_i, st_i, n_i], 'impl_output': [got, want]})
        # ordering Gerber <= Goodman <= Soderberg for sy <= su (non-negative mean stress)
        if lo + hi >= 0:
            sy = st
            su = st * rng.choice([1.0, 1.2, 2.0])
            try:
                g, gd, sd = (float(lcc.gerberCorrection([lo, hi], su, nn)), float(lcc.goodmanCorrection([lo, hi], su, nn)),
                             float(lcc.soderbergCorrection([lo, hi], sy, nn)))
                res.evaluations += 1
                if not (g <= gd * (1 + 1e-12) and gd <= sd * (1 + 1e-12)):
                    res.failures.append({'signature': f'C09:ordering:{lo}:{hi}:{sy}:{su}:{nn}', 'clause': 'Gerber <= Goodman <= Soderberg',
                                         'api': 'all three', 'input': [lo, hi, sy, su, nn], 'impl_output': [g, gd, sd]})
            except ValueError:
                pass
    for (fname, args, s), a in zip(meta, core.driver_batch(reqs)):
        r = gen.unbits(a)
        # the residual is relative (terms of order 1 / n); for a narrow range the amplitude ( hi - lo ) / 2 - in the code formed from the
        # range already multiplied by n - carries ulp( n * hi ) / ( hi - lo ) of rounding, and so does the term sa / s
        lo_, hi_ = args[0], args[1]
        if not (abs(r) <= 1e-9 + 1e-15 * max(abs(lo_), abs(hi_)) / (hi_ - lo_)):
            res.failures.append({'signature': f'C09:{fname}:defining-equation:n={"1" if args[3] == 1.0 else "not1"}:' +
                                 ':'.join(repr(x) for x in args), 'clause': 'defining equation residual %r' % r,
                                 'api': fname, 'input': list(args), 'impl_output': s})
    # inadmissible inputs: the guard outcome must agree with the generated `_ok`
    for _ in range(n // 4):
        lo, hi, st, nn = admissible(rng)
        k = rng.randrange(6)
        if k == 0: hi = -abs(hi)
        if k == 1: lo = hi + 1
        if k == 2: st = -st
        if k == 3: lo = -2 * abs(hi) - 1; hi = abs(hi)
        if k == 4: nn = 0.5
        if k == 5: st = nn * (lo + hi) / 2 - 0.1
        for kind, fname in FNS.items():
            f = getattr(lcc, fname)
            tv.append((fname, (lo, hi, st, nn), (lambda f=f, lo=lo, hi=hi, st=st, nn=nn: f([lo, hi], st, nn))))
    gen.validate(res, 'MeanStress', tv)
    res.samples += [{'fn': nm, 'lo_hi_strength_n': list(a)} for nm, a, _ in tv[:3]]


def run(tier, seed):
    res = core.Result(PID, tier, seed)
    res.rule = ('random admissible (range, strength, n) incl. n = 1 and n > 1, ratio -1, zero mean; plus inadmissible inputs for the '
                'guard; non-trivial/distinct by (function, arguments)')
    gen.regenerate(res, ['MeanStress'])
    core.prove(res, PID, MODULES, clean=(tier == 'thorough'))
    n = 400 if tier == 'quick' else 20000
    explore(res, random.Random(seed), n)
    if (res.proof_problems or res.disagreements) and not res.failures:
        explore(res, random.Random(seed + 7919), 4 * n)
    res.disagreements_checked = res.traces
    res.trusted += ['harness/translate.py (Python AST -> generic Lean definition), validated on every run at Float against the Python '
                    'function (value to 1e-11 relative and guard outcome)',
                    'the Float instance stands in for the reals only in the tie, never in a theorem']
    return core.finish(res)


def replay(path):
    d = json.load(open(path))
    f = d.get('failure')
    if not f:
        print('replay file names a broken obligation/tie, no input to replay:', json.dumps(d.get('no_longer_checks'))[:800])
        return 1
    core.import_impl()
    from ffpack import lcc
    print('recorded:', json.dumps(f)[:800])
    if f.get('api') in FNS.values():
        lo, hi, st, nn = f['input'][:4]
        s = float(getattr(lcc, f['api'])([lo, hi], st, nn))
        sa, sm = (hi - lo) / 2, (lo + hi) / 2
        r = (nn * sa / s + (nn * sm / st) ** 2 - 1) if f['api'].startswith('gerber') else (sa / s + sm / st - 1 / nn)
        print('now: result', s, 'residual of the defining equation', r)
        return 0 if abs(r) <= 1e-9 else 1
    return 1
