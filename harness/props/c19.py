"""C19 — signal-conditioning utilities never invent data and bound their distortion (DESIGN §5 C19)"""
import json
import os
import random
import core
from core import enc_list, to_grid, OffGrid

PID = 'C19'
MODULES = ['FFVerif.Proofs.C19']


def enc_rows(t):
    return ','.join(f'{k}:{u}' for k, u in t) if t else '-'


def fl(xs, s):
    return [k * 2.0 ** -s for k in xs]


def grid(xs, s):
    return [to_grid(v, s) for v in xs]


def call(f, *a):
    try:
        return f(*a)
    except ValueError:
        return 'ValueError'
    except Exception as e:  # noqa
        return 'other:' + type(e).__name__


def explore(res, rng, n):
    core.import_impl()
    from ffpack import utils
    reqs, meta = [], []

    def add(kind, api, case, impl, model_req, pred_req):
        res.evaluations += 1
        reqs.append(model_req)
        meta.append(('corr', api, case, impl))
        if pred_req:
            reqs.append(pred_req)
            meta.append(('pred', api, case, impl))

    for i in range(n):
        h, s = core.gen_history(rng, maxlen=30)
        if i % 16 == 7 and h and max(abs(v) for v in h) < 4096:
            s = 600                      # tiny magnitudes (k * 2^-600, still exact): products of two differences underflow to zero
            res.stat('tiny_magnitude_2^-600')
        if i < 3:
            res.samples.append({'history': h, 'scale_2^-s': s})
        if len(set(h)) > 1:
            res.nontrivial.add(tuple(h))
        # ---- peak-valley filter
        for keep in (True, False):
            if (keep and len(h) < 2) or (not keep and len(h) < 3):
                continue
            out = call(utils.sequencePeakValleyFilter, fl(h, s), keep)
            if isinstance(out, str):
                res.disagreements.append({'what': 'sequencePeakValleyFilter raised', 'input': h, 'impl': out})
                continue
            try:
                o = grid(out, s)
                if keep:
                    ag = grid(utils.sequencePeakValleyFilter(out, True), s)
                else:
                    t = utils.sequencePeakValleyFilter(fl(h, s), True)
                    ag = grid(utils.sequencePeakValleyFilter(t, False), s) if len(t) >= 3 else []
            except OffGrid as e:
                res.disagreements.append({'what': 'sequencePeakValleyFilter off grid', 'input': h, 'impl': str(e)})
                continue
            res.stat('pv_keepEnds_%s' % keep)
            add('pv', 'sequencePeakValleyFilter', {'input': h, 'scale': s, 'keepEnds': keep}, enc_list(o),
                f'pv {int(keep)} {enc_list(h)}', f'c19pv {int(keep)} {enc_list(h)} {enc_list(o)} {enc_list(ag)}')
        # ---- hysteresis filter
        span = max(h) - min(h) + 1
        gate = rng.choice([1, 2, 3, max(1, span // 3), max(1, span // 2), span, 2 * span])
        g = gate * 2.0 ** -s
        if float(g).is_integer() and rng.random() < 0.5:
            g = int(g)
        out = call(utils.sequenceHysteresisFilter, fl(h, s), g)
        if isinstance(out, str):
            res.disagreements.append({'what': 'sequenceHysteresisFilter raised', 'input': h, 'gate': gate, 'impl': out})
        else:
            o = grid(out, s)
            res.stat('hyst_dropped_%s' % ('0' if len(o) == len(h) else 'some'))
            add('hy', 'sequenceHysteresisFilter', {'input': h, 'scale': s, 'gate': gate}, enc_list(o),
                f'hyst {enc_list(h)} {gate}', f'c19hy {enc_list(h)} {gate} {enc_list(o)}')
        if s == 600:
            s = 0           # the tiny-magnitude stream is for the two filters only
        # ---- digitisation: data k/2^s, resolution r/2^s
        r = rng.choice([1, 2, 3, 4, 5, 6, 8, 12, 16, 3 << s, 1 << s, 7])
        d = list(h)
        if rng.random() < 0.5:          # exact half-way values on purpose
            d += [r * m + r // 2 for m in range(-3, 4)] if r % 2 == 0 else [r * m for m in range(-2, 3)]
        out = call(utils.sequenceDigitization, fl(d, s), r * 2.0 ** -s)
        if isinstance(out, str):
            res.disagreements.append({'what': 'sequenceDigitization raised', 'input': d, 'res': r, 'impl': out})
        else:
            try:
                o = grid(out, s)
                ag = grid(utils.sequenceDigitization(out, r * 2.0 ** -s), s)
                res.stat('digit_with_ties' if any((2 * k) % r == 0 and (2 * k // r) % 2 for k in d) else 'digit_no_ties')
                add('dg', 'sequenceDigitization', {'input': d, 'scale': s, 'resolution': r}, enc_list(o),
                    f'digit {r} {enc_list(d)}', f'c19dg {r} {enc_list(d)} {enc_list(o)} {enc_list(ag)}')
            except OffGrid as e:
                res.disagreements.append({'what': 'sequenceDigitization off grid', 'input': d, 'res': r, 'impl': str(e)})
        # ---- digitisation at decimal resolutions (0.1, 0.2, 0.3 ...: 1/resolution is not a binary fraction): every output value is
        # rint(d / resolution) * resolution in binary64, computed independently (core.digitise_ref)
        if len(h) and max(abs(v) for v in h) < 4096:
            dd = rng.choice([1, 1, 2])
            rr = rng.choice([1, 2, 3, 5, 7, 15, 25])
            dec = [k / 10 ** dd for k in h] + [(rr * m + rr / 2) / 10 ** dd for m in range(-2, 3)]
            resf = rr / 10 ** dd
            outd = call(utils.sequenceDigitization, list(dec), resf)
            res.evaluations += 1
            res.stat('digit_decimal_resolution')
            if isinstance(outd, str):
                res.failures.append({'signature': f'C19:sequenceDigitization:decimal:raised:{rr}:{dd}', 'clause': 'valid input raised ' + outd,
                                     'api': 'sequenceDigitization', 'input': {'data': dec[:8], 'resolution': resf}})
            else:
                ref = [core.digitise_ref(v, resf) for v in dec]
                bad = [(a, float(b), c) for a, b, c in zip(dec, outd, ref) if float(b) != c]
                if bad:
                    res.failures.append({'signature': f'C19:sequenceDigitization:decimal:value:{bad[0][0]}:{resf}', 'api': 'sequenceDigitization',
                                         'clause': 'fail:nearest-multiple (value, returned, rint(d/resolution)*resolution): ' + repr(bad[:3]),
                                         'input': {'data': dec[:12], 'resolution': resf}})
        # ---- aggregation: rows [range, count]
        b = rng.choice([1, 2, 3, 4, 5, 8, 1 << s, 3 << s])
        rows = [(abs(v) if rng.random() < 0.85 else -abs(v), rng.choice([1, 2, 2, 3, 4])) for v in h[:12]]
        if rng.random() < 0.4:
            rows += [(b * m + b // 2, 1) for m in range(0, 3)]
        arr = [[v * 2.0 ** -s, u / 2.0] for v, u in rows]
        if rng.random() < 0.3:
            # integer-typed [range, count] rows (Python ints or an int64 array) with a possibly fractional bin size
            irows = [(v, u) for v, u in rows]
            rows = [(v << s, 2 * u) for v, u in irows]
            import numpy as np
            arr = [[int(v), int(u)] for v, u in irows] if rng.random() < 0.5 else np.array([[int(v), int(u)] for v, u in irows], dtype=np.int64)
            res.stat('agg_integer_typed_rows')
        out = call(utils.cycleCountingAggregation, arr, b * 2.0 ** -s)
        if isinstance(out, str):
            res.disagreements.append({'what': 'cycleCountingAggregation raised', 'input': rows, 'bin': b, 'impl': out})
        else:
            try:
                o = [] if out == [[]] else [(to_grid(k, s), int(round(c * 2))) for k, c in out]
                res.stat('agg_negative_values' if any(v < 0 for v, _ in rows) else 'agg_nonnegative')
                add('ag', 'cycleCountingAggregation', {'rows': rows, 'scale': s, 'bin': b}, enc_rows(o),
                    f'agg {b} {enc_rows(rows)}', f'c19ag {b} {enc_rows(rows)} {enc_rows(o)}')
            except OffGrid as e:
                res.disagreements.append({'what': 'cycleCountingAggregation off grid', 'input': rows, 'bin': b, 'impl': str(e)})
    # ---- aggregation with decimal bin sizes (0.1, 0.2, 0.3, 0.05: binSize * k is not binSize * (k-1) + binSize in binary64):
    # distinct ascending centres that are multiples of the bin size, every value within half a bin of its centre, total conserved
    # … also bin sizes with more decimals than globalConfig.atol has digits (0.125 or 0.004 under atol = 2; 2.5e-9 under the default): the
    # bin size is the caller's, the configured digits concern the cycle counters
    from ffpack.config import globalConfig
    for it in range(max(40, n // 15)):
        bd = rng.choice([0.1, 0.2, 0.3, 0.05, 0.025, 0.7, 0.125, 0.004, 0.0625, 2.5e-9, 1e-10])
        vals = [float('%.*g' % (rng.choice([3, 4]), rng.uniform(0, 40) * bd)) for _ in range(rng.choice([2, 3, 5, 8, 12]))]
        tab = [[v, float(rng.choice([1, 2, 0.5]))] for v in vals]
        digits = rng.choice([0, 1, 2, 3]) if it % 3 == 0 else None
        old_cfg = (globalConfig.atol, globalConfig.rtol)
        try:
            if digits is not None:
                globalConfig.atol = digits
                res.stat('agg_under_changed_global_config')
            out = call(utils.cycleCountingAggregation, [list(r) for r in tab], bd)
        finally:
            globalConfig.atol, globalConfig.rtol = old_cfg
        res.evaluations += 1
        res.stat('agg_decimal_bin_size' if bd > 1e-6 else 'agg_tiny_bin_size')
        case = {'rows': tab, 'bin': bd, 'globalConfig.atol': digits}
        if isinstance(out, str):
            res.failures.append({'signature': f'C19:cycleCountingAggregation:decimal:raised:{bd}', 'clause': 'valid table raised ' + out, 'api': 'cycleCountingAggregation', 'input': case})
            continue
        out = [] if out == [[]] else out
        idxs = [round(k / bd) for k, _ in out]
        bad = []
        if idxs != sorted(set(idxs)):
            bad.append('keys-sorted-distinct')
        if any(abs(k - i * bd) > 1e-9 * max(bd, abs(k)) for (k, _), i in zip(out, idxs)):
            bad.append('keys-multiples')
        if abs(sum(c for _, c in out) - sum(c for _, c in tab)) > 1e-9:
            bad.append('total')
        want = {}
        for v, c in tab:
            q = v / bd
            i = int(q)
            # nearest centre, ties downwards; values within 1e-9 of a tie may go either way
            cand = [i, i + 1]
            near = [j for j in cand if abs(v - j * bd) <= bd / 2 * (1 + 1e-9)]
            if not any(j in idxs for j in near):
                bad.append('half-bin')
        if bad:
            res.failures.append({'signature': f'C19:cycleCountingAggregation:decimal:{",".join(sorted(set(bad)))}:{json.dumps(case)}',
                                 'clause': 'fail:' + ','.join(sorted(set(bad))), 'api': 'cycleCountingAggregation', 'input': case, 'impl_output': out})
    for (kind, api, case, impl), a in zip(meta, core.driver_batch(reqs)):
        if kind == 'corr':
            res.traces += 1
            if impl != a:
                res.disagreements.append({'what': api + ' vs model', 'input': case, 'impl': impl, 'model': a})
        elif a != 'ok':
            res.failures.append({'signature': f'C19:{api}:{a}:{json.dumps(case, sort_keys=True)}', 'clause': a, 'api': api,
                                 'input': case, 'impl_output': impl})


def containers(res, rng, k):
    """the four utilities on numpy arrays: (1) a float32 / float16 array holds exact binary64 numbers - the result must be the one for those
    numbers given as a list of Python floats (a computation kept in the narrow type is not); (2) a float64 array handed over by the caller
    is the caller's: unchanged by the call, and a second call on it (another gate / resolution) gives what a fresh copy gives"""
    import numpy as np
    core.import_impl()
    from ffpack import utils
    for it in range(k):
        n = rng.choice([4, 6, 9, 14])
        kind = it % 4
        if kind == 0:
            vals = [round(rng.uniform(-5, 5), 2) for _ in range(n)]
        elif kind == 1:
            vals = [float(rng.randint(-400, 400)) / 8 for _ in range(n)]
        elif kind == 2:
            vals = [round(rng.uniform(100, 260), 1) for _ in range(n)]
        else:
            vals = [float(40000000 + rng.randint(0, 40)) for _ in range(n)]
        if len(set(vals)) < 2:
            continue
        r1, r2 = rng.choice([(0.1, 0.3), (3.0, 0.7), (0.25, 0.1), (0.05, 2.0)])
        g1, g2 = rng.choice([(3.0, 1.0), (0.5, 0.2), (10.0, 0.75)])
        b1 = rng.choice([0.5, 0.1, 2.0])
        ops = [('sequencePeakValleyFilter', lambda a: utils.sequencePeakValleyFilter(a, True)),
               ('sequencePeakValleyFilter', lambda a: utils.sequencePeakValleyFilter(a, False)) if n >= 3 else None,
               ('sequenceHysteresisFilter', lambda a: utils.sequenceHysteresisFilter(a, g1)),
               ('sequenceHysteresisFilter', lambda a: utils.sequenceHysteresisFilter(a, g2)),
               ('sequenceDigitization', lambda a: utils.sequenceDigitization(a, r1)),
               ('sequenceDigitization', lambda a: utils.sequenceDigitization(a, r2))]
        ops = [o for o in ops if o]
        # (1) narrow float dtypes
        for dt in (np.float32, np.float16):
            arr = np.array(vals, dtype=dt)
            if not np.all(np.isfinite(arr)):
                continue
            exact = [float(v) for v in arr]            # the very numbers the array holds
            for api, f in ops:
                res.evaluations += 1
                res.stat('narrow_float_array_' + dt.__name__)
                try:
                    want = f(list(exact))
                    got = f(np.array(vals, dtype=dt))
                    got = [float(v) for v in got]
                    want = [float(v) for v in want]
                except Exception as e:  # noqa
                    res.failures.append({'signature': f'C19:{api}:narrow-float:raised:{dt.__name__}:{vals}', 'clause': 'valid %s array raised %s' % (dt.__name__, repr(e)[:80]),
                                         'api': api, 'input': {'data': exact, 'dtype': dt.__name__}})
                    continue
                if got != want:
                    res.failures.append({'signature': f'C19:{api}:narrow-float:{dt.__name__}:{vals}:{r1}:{g1}',
                                         'clause': 'the result for a %s array differs from the result for the same numbers as Python floats' % dt.__name__,
                                         'api': api, 'input': {'data': exact, 'dtype': dt.__name__, 'resolutions': [r1, r2], 'gates': [g1, g2]},
                                         'impl_output': {'array': got[:8], 'floats': want[:8]}})
        # (2) the caller's float64 array: unchanged, and usable again
        arr = np.array(vals, dtype=float)
        keep = arr.copy()
        for api, f in ops:
            res.evaluations += 1
            res.stat('caller_float64_array')
            try:
                got = [float(v) for v in f(arr)]
                want = [float(v) for v in f(list(vals))]
            except Exception as e:  # noqa
                res.failures.append({'signature': f'C19:{api}:caller-array:raised:{vals}', 'clause': 'valid call on an array used before raised ' + repr(e)[:80],
                                     'api': api, 'input': {'data': vals}})
                arr = keep.copy()
                continue
            same = bool(np.array_equal(arr, keep, equal_nan=False))
            if not same or got != want:
                res.failures.append({'signature': f'C19:{api}:caller-array:{vals}:{g1}:{g2}',
                                     'clause': ('the float64 array of the caller was modified by the call' if not same else
                                                'a call on an array used in earlier calls differs from the call on a fresh copy'),
                                     'api': api, 'input': {'data': vals, 'gates': [g1, g2], 'resolutions': [r1, r2]},
                                     'impl_output': {'array_after': [float(v) for v in arr][:8], 'result': got[:8], 'result_on_fresh_copy': want[:8]}})
                arr = keep.copy()
        # aggregation rows as a float64 array
        rows = np.array([[abs(v), 1.0] for v in vals], dtype=float)
        keepr = rows.copy()
        try:
            utils.cycleCountingAggregation(rows, b1)
            if not np.array_equal(rows, keepr):
                res.failures.append({'signature': f'C19:cycleCountingAggregation:caller-array:{vals}', 'clause': 'the float64 array of the caller was modified by the call',
                                     'api': 'cycleCountingAggregation', 'input': {'rows': keepr.tolist(), 'bin': b1}})
        except Exception:  # noqa
            pass


def malformed(res):
    core.import_impl()
    from ffpack import utils
    for f, args, want in [(utils.sequencePeakValleyFilter, ([1.0], True), 'ValueError'),
                          (utils.sequencePeakValleyFilter, ([1.0, 2.0], False), 'ValueError'),
                          (utils.sequencePeakValleyFilter, ([[1.0, 2.0]], True), 'ValueError'),
                          (utils.sequenceHysteresisFilter, ([1.0], 1.0), 'ValueError'),
                          (utils.sequenceHysteresisFilter, ([1.0, 2.0], 0.0), 'ValueError'),
                          (utils.sequenceHysteresisFilter, ([1.0, 2.0], -1.0), 'ValueError'),
                          (utils.sequenceHysteresisFilter, ([1.0, 2.0], [1.0]), 'ValueError'),
                          (utils.sequenceDigitization, ([[1.0, 2.0]], 1.0), 'ValueError'),
                          (utils.cycleCountingAggregation, ([1.0, 2.0], 1.0), 'ValueError'),
                          (utils.cycleCountingAggregation, ([[1.0, 2.0, 3.0]], 1.0), 'ValueError')]:
        got = call(f, *args)
        got = got if isinstance(got, str) else 'ok'
        res.stat('malformed_' + got)
        if got != want:
            res.disagreements.append({'what': 'input guard ' + f.__name__, 'input': repr(args), 'impl': got, 'model': want})


def run(tier, seed):
    res = core.Result(PID, tier, seed)
    res.rule = ('random tie-rich histories with plateaus; gates from 1 grid step to twice the span; resolutions/bins incl. '
                'non-powers of two and exact half-way values; non-trivial = non-constant history, distinct by value tuple')
    core.prove(res, PID, MODULES, clean=(tier == 'thorough'))
    n = 1500 if tier == 'quick' else 40000
    explore(res, random.Random(seed), n)
    containers(res, random.Random(seed + 13), 24 if tier == 'quick' else 400)
    malformed(res)
    if (res.proof_problems or res.disagreements) and not res.failures:
        explore(res, random.Random(seed + 7919), 4 * n)
    res.disagreements_checked = res.traces
    res.trusted += ['hand-written models FF.pv, FF.hystGo, FF.digitize (round-half-even on integer quotients), FF.binKey/aggregate '
                    'tied by exact correspondence; np.rint and int() truncation are modelled by integer division',
                    'float division d/res is exact or far from a rounding tie on the tested grids (|values| < 2^20)']
    return core.finish(res)


def replay(path):
    d = json.load(open(path))
    f = d.get('failure')
    if not f:
        print('replay file names a broken obligation/tie, no input to replay:', json.dumps(d.get('no_longer_checks'))[:500])
        return 1
    print('failing case recorded:', json.dumps(f)[:1500])
    print('re-run: VERIF_SEED=%s ./check C19 --tier %s' % (os.environ.get('VERIF_SEED', '0'), 'quick'))
    return 1
