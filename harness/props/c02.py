"""C02 — every cycle counter returns a consistent, bounded and conserved census (DESIGN §5 C02)"""
import json
import os
import random
import core
import cyc
from core import enc_list, enc_cycs, enc_table

PID = 'C02'
MODULES = ['FFVerif.Proofs.C02']


def pred(name, h, out):
    if len(set(h)) < 2:
        return None          # the property quantifies over non-constant histories
    return f'c02 {name} {enc_list(h)} {enc_cycs(out["seq"])} {enc_table(out["table"])}'


def corpus():
    p = os.path.join(core.VERIF, 'corpus', 'histories.json')
    return [(h, 0) for h in json.load(open(p))] if os.path.exists(p) else []


def explore(res, rng, n, exhaustive=None):
    cases = corpus()
    nc = len(cases)
    for _ in range(n):
        h, s = core.gen_history(rng, closed=(rng.random() < 0.4))
        cases.append((h, s))
    if exhaustive:
        cases += [(h, 0) for h in core.small_histories(*exhaustive)]
    # decimal grids (0.1, 0.01): equal nominal ranges are different binary64 numbers there, which is what the
    # rounding of aggregated ranges to globalConfig.atol digits exists for; predicates only (see cyc.correspondence)
    for _ in range(n // 3):
        h, _s = core.gen_history(rng, maxlen=20, closed=(rng.random() < 0.4))
        if max(abs(v) for v in h) < 4096:
            cases.append((h, rng.choice([-1, -1, -2, -3, -6, -7])))
    for h, s in cases:
        cyc.hist_stats(res, h)
    # the number of digits is read from globalConfig at call time: change it and compare each table with its own cycle list
    cyc.config_stream(res, cyc.NAMES, [c for c in cases if c[1] < 0][: max(20, n // 12)])
    runs = cyc.correspondence(res, cyc.NAMES, cases, pred)
    cyc.micro_stream(res, cyc.NAMES, rng, max(30, n // 25), pred)
    cyc.extreme_scale_stream(res, cyc.NAMES, rng, max(12, n // 60))
    cyc.narrow_dtype_stream(res, cyc.NAMES, rng, max(10, n // 80))
    cyc.config_cycles_stream(res, cyc.NAMES, rng, max(16, n // 60))
    cyc.caller_array_stream(res, cyc.NAMES, rng, max(10, n // 100))
    for name, h, s, out in runs:
        res.stat('counter_' + name)
        if 'error' in out:
            res.stat('impl_error_' + out['error'].split(':')[0])
    res.samples += [{'history': h, 'scale_2^-s': s} for h, s in cases[nc:nc + 3]]


def malformed(res):
    core.import_impl()
    from ffpack import lcc
    table = [([], 'ValueError'), ([1.0], 'ValueError'), ([[1.0, 2.0], [2.0, 3.0]], 'ValueError')]
    for name in cyc.NAMES:
        f = getattr(lcc, cyc.API[name])
        extra = []
        if name == 'fourpoint':
            extra = [([1.0, 2.0, 1.0], 'ValueError')]
        if name == 'repeat':
            extra = [([1.0, 2.0, 3.0], 'ValueError')]
        for bad, want in table + extra:
            try:
                f(bad)
                got = 'ok'
            except ValueError:
                got = 'ValueError'
            except Exception as e:  # noqa
                got = 'other:' + type(e).__name__
            res.stat('malformed_' + got)
            if got != want:
                res.disagreements.append({'what': 'input guard ' + cyc.API[name], 'input': bad, 'impl': got, 'model': want})


def below_resolution(res):
    """ranges far below 10^-atol: every aggregated table rounds them to 0.0 or to 1e-8 (recorded design limitation)"""
    core.import_impl()
    from ffpack import lcc
    for h in ([0.0, 3e-9, 0.0, 4e-9, 0.0], [0.0, 6e-9, 0.0, 7e-9, 0.0]):
        for name in cyc.NAMES:
            if not cyc.valid_for(name, h):
                continue
            t = getattr(lcc, cyc.API[name])(list(h), aggregate=True)
            res.evaluations += 1
            res.stat('ranges_below_atol_resolution')
            t = [] if t == [[]] else t
            if any(not (0 < k <= max(h) - min(h)) for k, _ in t):
                res.failures.append({'signature': 'C02:aggregated-ranges-rounded-to-atol-decimals:below-resolution', 'clause': 'fail:ranges (a counted range outside (0, max-min])',
                                     'api': cyc.API[name], 'input': h, 'impl_output': t})


def run(tier, seed):
    res = core.Result(PID, tier, seed)
    res.rule = ('random tie-rich histories (40% closed; dyadic grids compared exactly with the model, decimal grids 10^-1..10^-7 through the predicates only) x seven counters x both output modes; non-trivial = at least one '
                'interior reversal; distinct by (counter, value tuple)')
    core.prove(res, PID, MODULES, clean=(tier == 'thorough'))
    rng = random.Random(seed)
    n = 1200 if tier == 'quick' else 20000
    ex = (6, 3) if tier == 'quick' else (7, 5)
    explore(res, rng, n, exhaustive=ex)
    res.notes.append('all histories of length <= %d over %d values enumerated in addition (a test, not the theorem)' % ex)
    malformed(res)
    below_resolution(res)
    if (res.proof_problems or res.disagreements) and not res.failures:
        explore(res, random.Random(seed + 7919), 4 * n)
    res.disagreements_checked = res.traces
    res.trusted += ['hand-written models of the seven counters (FF.simpleRange, rainflow, rangePair, rainflowRepeat, fourPoint, '
                    'rychlik, johannesson) tied by exact correspondence',
                    'the linked-index bookkeeping of range-pair/four-point is modelled as a stack / list with deletion']
    # (last: a shared default object polluted here must not disturb the streams above)
    core.import_impl()
    from ffpack import lcc as _lcc
    _hs = [[1.0, 2.0], [0.0, 1.0, 2.0, 3.0], [0.0, 2.0, 1.0, 3.0, 0.0], [3.0, 1.0, 3.0], [0.0, 1.0, 0.0, 1.0]]
    _calls = []
    from ffpack import utils as _utils
    for _h in _hs:
        # the reversals extracted by the user beforehand (and normalised in place) are the user's: the counters start from the history
        for _keep in (True, False):
            if len(_h) >= 3 or _keep:
                _calls.append(('sequencePeakValleyFilter', (lambda _h=_h, _keep=_keep: _utils.sequencePeakValleyFilter(list(_h), _keep)), f'{_h} keepEnds={_keep}'))
        for _name in cyc.NAMES:
            if not cyc.valid_for(_name, _h):
                continue
            for _agg in (True, False):
                _calls.append((cyc.API[_name], (lambda _h=_h, _name=_name, _agg=_agg: getattr(_lcc, cyc.API[_name])(list(_h), aggregate=_agg)), f'{_h} aggregate={_agg}'))
    cyc.fresh_results(res, _calls)
    return core.finish(res)


def replay(path):
    d = json.load(open(path))
    f = d.get('failure')
    if not f:
        print('replay file names a broken obligation/tie, no input to replay:', json.dumps(d.get('no_longer_checks'))[:500])
        return 1
    name = [k for k, v in cyc.API.items() if v == f['api']][0]
    h, s = f['input'], f.get('scale', 0)
    out = cyc.run_impl(name, h, s)
    ans = core.driver_batch([pred(name, h, out)])[0] if 'error' not in out else 'error'
    print('api', f['api'], 'input', h, 'scale', s, 'impl', cyc.impl_line(out), 'predicate', ans)
    return 0 if ans == 'ok' else 1
