"""C13 — subset-simulation levels are nested and their product estimates pf (DESIGN §5 C13)"""
import json
import math
import os
import random
from fractions import Fraction
from unittest import mock
import core
from core import enc_list

PID = 'C13'
MODULES = ['FFVerif.Proofs.C13']


def fail(res, clause, case, out, sig=None):
    res.failures.append({'signature': sig or 'C13:' + clause + ':' + json.dumps(case), 'clause': clause, 'input': case, 'impl_output': out})


def problems():
    core.import_impl()
    from scipy import stats
    import numpy as np
    return {
        'linear2': (2, lambda X: 3.0 - X[0] - X[1], [stats.norm(), stats.norm()], np.eye(2), 3.0 / math.sqrt(2)),
        'linear2far': (2, lambda X: 6.0 - X[0] - X[1], [stats.norm(), stats.norm()], np.eye(2), 6.0 / math.sqrt(2)),
        # a variable of tiny magnitude (a Paris-law coefficient of 4e-12 +- 1e-12) next to one of order one: two points that differ in the tiny
        # variable only are different points
        'tiny-variable': (2, lambda X: 3.0 - X[0] - 0.5 * (X[1] * 1e12 - 4.0), [stats.norm(), stats.norm(4e-12, 1e-12)], np.eye(2), 3.0 / math.sqrt(1.25)),
        'linear1': (1, lambda X: 3.0 - X[0], [stats.norm()], np.eye(1), 3.0),
        'linear3': (3, lambda X: 4.0 - X[0] - X[1] - X[2], [stats.norm(), stats.norm(), stats.norm()], np.eye(3), 4.0 / math.sqrt(3)),
        'lognormal': (2, lambda X: X[0] * X[1] - 0.2, [stats.lognorm(0.5), stats.lognorm(0.3)], np.eye(2), None),
        'quadratic': (2, lambda X: 5.0 - X[0] ** 2 - X[1], [stats.norm(), stats.norm()], np.eye(2), None),
        # limit states with a plateau at zero / integer values: level thresholds that are exactly 0 and tied g values
        'clipped': (2, lambda X: max(2.0 - (X[0] + X[1]) / math.sqrt(2), 0.0), [stats.norm(), stats.norm()], np.eye(2), None),
        'integer': (2, lambda X: float(math.floor(2.5 - X[0] - X[1])), [stats.norm(), stats.norm()], np.eye(2), None),
        # correlated non-normal marginals (the latent correlation depends on the quadrature parameters)
        # the same families as 'linear2' / 'lognormal' with the parameters written as keywords (another distribution, same family and shape of
        # the argument list): runs on different problems in one process must not share anything
        'linear2kw': (2, lambda X: 27.0 - X[0] - X[1], [stats.norm(loc=10, scale=2), stats.norm(loc=10.0, scale=2.0)], np.eye(2), 7.0 / math.sqrt(8)),
        'lognormalkw': (2, lambda X: X[0] * X[1] - 0.8, [stats.lognorm(s=0.5, scale=2.0), stats.lognorm(s=0.3, scale=2.0)], np.eye(2), None),
        # a limit state that is not defined everywhere (NaN for A < 0, next to the failure domain): a move to a point where g is undefined
        # is not a move below the level
        'sqrt-domain': (2, lambda X: float(np.sqrt(X[0])) - X[1], [stats.norm(4.0, 1.2), stats.norm(0.6, 0.25)], np.eye(2), None),
        'correlated': (2, lambda X: X[0] + X[1] - 0.6, [stats.lognorm(0.5), stats.expon()], np.array([[1.0, 0.6], [0.6, 1.0]]), None),
    }


def traced_run(name, N, p0, maxSub, seed, quad=None):
    """run subsetSimulation with the chain evolution observed from outside; returns outputs + trace"""
    core.import_impl()
    import numpy as np
    from ffpack import rrm
    from ffpack.rpm import metropolisHastings as mhmod
    dim, g, dists, corr, beta = problems()[name]
    log = {'g_main': [], 'chains': [], 'inside': False}

    def gw(X):
        v = float(g(X))
        if not log['inside']:
            log['g_main'].append(v)
            if log['chains']:
                log['chains'][-1].append(v)
        return v
    Real = mhmod.AuModifiedMHSampler

    class Spy(Real):
        def __init__(self, *a, **k):
            super().__init__(*a, **k)
            log['chains'].append([])

        def getSample(self):
            log['inside'] = True
            try:
                return super().getSample()
            finally:
                log['inside'] = False
    with mock.patch.object(mhmod, 'AuModifiedMHSampler', Spy):
        kwq = {} if quad is None else {'quadDeg': quad[0], 'quadRange': quad[1]}
        pf, lsf, U, X = rrm.subsetSimulation(dim, gw, dists, corr, N, maxSub, probLevel=p0, randomSeed=seed, **kwq)
    return dict(pf=float(pf), lsf=np.array(lsf), U=np.array(U), X=np.array(X), g0=log['g_main'][:N], chains=log['chains'],
                dim=dim, g=g, dists=dists, corr=corr, beta=beta)


def check_run(res, name, N, p0, maxSub, seed, reqs, meta, quad=None, config=None):
    core.import_impl()
    import numpy as np
    from ffpack import rpm
    case = {'problem': name, 'numSamples': N, 'probLevel': p0, 'maxSubsets': maxSub, 'seed': seed, 'quad': quad, 'globalConfig': config}
    if config:
        from ffpack.config import globalConfig
        old = (globalConfig.atol, globalConfig.rtol)
        globalConfig.atol, globalConfig.rtol = config
        try:
            r = traced_run(name, N, p0, maxSub, seed, quad)
        finally:
            globalConfig.atol, globalConfig.rtol = old
    else:
        r = traced_run(name, N, p0, maxSub, seed, quad)
    nc = int(p0 * N)
    res.evaluations += 1
    res.nontrivial.add(json.dumps(case))
    exact = (nc * int(1.0 / p0) == N)
    res.stat('chains_fill_level' if exact else 'chains_do_not_divide_level')
    lsf = r['lsf']
    m = lsf.shape[0]
    if np.isnan(lsf[0]).any():
        res.stat('crude_level_outside_the_domain_of_g')      # the first level is plain Monte Carlo: nothing to check on such a draw
        return r
    if np.isnan(lsf).any():
        fail(res, 'a sample where the limit state is undefined (NaN) was kept in a conditional level', case, {'levels_with_nan': [int(k) for k in range(m) if np.isnan(lsf[k]).any()]})
        return r
    # (b) every level holds N samples sorted by g
    for k in range(m):
        if lsf[k].shape[0] != N or not np.all(np.diff(lsf[k]) >= 0):
            fail(res, 'level not sorted / wrong size', case, {'level': k})
    # (a) nestedness
    for k in range(m - 1):
        thr = max(lsf[k][nc - 1], 0.0)
        bad = int(np.sum(~(lsf[k + 1] <= thr)))          # (a NaN is not below any threshold)
        if bad:
            fail(res, 'samples of level k+1 above the level-k threshold', case, {'level': k + 1, 'above_threshold': bad, 'of': N},
                 sig=f'C13:nestedness:{name}:{N}:{p0}:{seed}')
    # (c) X = T(U), g evaluated on X
    nat = rpm.NatafTransformation(r['dists'], r['corr'], **({} if quad is None else {'quadDeg': quad[0], 'quadRange': quad[1]}))
    sds = np.array([float(ds.std()) for ds in r['dists']])
    stop = False
    for k in range(m):
        for i in (range(N) if name == 'tiny-variable' else (0, N // 2, N - 1)):
            x, _ = nat.getX(r['U'][k][i])
            Xs = np.array(r['X'][k][i], dtype=float)
            if not np.all(np.abs(np.array(x) - Xs) <= 1e-9 * np.abs(Xs) + 1e-10 * sds) or not math.isclose(float(r['g'](r['X'][k][i])), lsf[k][i], rel_tol=1e-9, abs_tol=1e-9):
                fail(res, 'X is not the Nataf image of U / g not evaluated on X', case, {'level': k, 'index': i, 'X': Xs.tolist(), 'stored_g': float(lsf[k][i]),
                                                                                        'g_of_X': float(r['g'](r['X'][k][i]))})
                stop = True
                break
        if stop:
            break
    # (d) pf
    converged = lsf[m - 1][nc - 1] <= 0
    res.stat('converged' if converged else 'stopped_by_maxSubsets')
    want = Fraction(p0) ** (m - 1) * Fraction(int(np.sum(lsf[m - 1] <= 0)), N)
    if not math.isclose(r['pf'], float(want), rel_tol=1e-12, abs_tol=1e-300) or not (0.0 <= r['pf'] <= 1.0):
        exhausted = (not converged) and math.isclose(r['pf'], float(Fraction(p0) ** m), rel_tol=1e-12)
        fail(res, 'pf is not p0^(m-1) * failure fraction of the last level', case, [r['pf'], float(want)],
             sig=('C13:pf:maxSubsets-exhausted:last-level-booked-as-p0' if exhausted else None))
    # ---- trace validation of the level bookkeeping against the Lean model (order-preserving integer image of g)
    allv = sorted(set(r['g0']) | {v for ch in r['chains'] for v in ch} | {0.0})
    z = allv.index(0.0)
    rank = {v: i - z for i, v in enumerate(allv)}
    per = nc
    levels_chains = [r['chains'][i:i + per] for i in range(0, len(r['chains']), per)]
    orc = '|'.join(';'.join(enc_list([rank[v] for v in ch]) for ch in lv) for lv in levels_chains) or '-'
    reqs.append(f'subset {nc} {maxSub} {enc_list([rank[v] for v in r["g0"]])} {orc}')
    meta.append((case, [[rank.get(float(v)) for v in lsf[k]] for k in range(m)], nc, rank))
    # the returned pf against the model's product of stored level probabilities (p0 as the exact binary fraction of the float)
    pa, pb = Fraction(p0).as_integer_ratio()
    reqs.append(f'subsetpf {pa} {pb} {N} {nc} {maxSub} {enc_list([rank[v] for v in r["g0"]])} {orc}')
    meta.append((case, ('pf', r['pf']), nc, rank))
    return r


def explore(res, rng, n):
    reqs, meta = [], []
    for i in range(n):
        name = rng.choice(['linear2', 'linear2', 'linear3', 'lognormal', 'quadratic', 'clipped', 'integer', 'correlated', 'linear2kw', 'lognormalkw'])
        if i < 2:
            name = ['clipped', 'integer'][i]
        if i == 5:
            name = 'correlated'
        if i in (6, 7, 8, 9):
            name = ['linear2', 'linear2kw', 'lognormal', 'lognormalkw'][i - 6]
        # incl. p0 * N that is not an integer, exactly (7.5, 3.3) or only in binary64 (0.07 * 100 = 7.000000000000001, 0.29 * 100 = 28.999999999999996)
        N, p0 = rng.choice([(20, 0.5), (40, 0.25), (50, 0.1), (30, 0.3), (100, 0.3), (64, 0.125), (10, 0.3), (60, 0.2),
                            (100, 0.07), (100, 0.29), (50, 0.15), (25, 0.3), (33, 0.1)])
        if i in (2, 3):
            N, p0 = [(100, 0.07), (50, 0.15)][i - 2]
        maxSub = rng.choice([3, 6, 10])
        quad = None
        if name == 'correlated' or rng.random() < 0.2:
            quad = rng.choice([(99, 8), (60, 3), (40, 5)])          # non-default quadrature degree / range
        config = (1, 1) if i % 5 == 4 else None                      # globalConfig.atol / rtol changed before the run
        r = check_run(res, name, N, p0, maxSub, rng.randrange(10 ** 6), reqs, meta, quad, config)
        if i < 2:
            res.samples.append(meta[-1][0])
    # ---- the failure domain is reached exactly at the last allowed level: the same run repeated with maxSubsets = the number of levels it
    # needed (the seed fixes everything else), so the loop is left at numSteps == maxSubsets
    for sd in (1, 2):
        check_run(res, 'sqrt-domain', 200, 0.1, 12, sd, reqs, meta)
    check_run(res, 'tiny-variable', 100, 0.1, 6, rng.randrange(10 ** 6), reqs, meta)
    for name, N, p0, sd in (('linear2', 50, 0.1, 11), ('lognormal', 100, 0.07, 5), ('quadratic', 40, 0.25, 3)):
        r0 = traced_run(name, N, p0, 12, sd)
        m = int(r0['lsf'].shape[0])
        if 1 <= m < 12:
            res.stat('converged_at_the_last_allowed_level')
            check_run(res, name, N, p0, m, sd, reqs, meta)
    for (case, levels, nc, rank), a in zip(meta, core.driver_batch(reqs)):
        res.traces += 1
        if isinstance(levels, tuple) and levels[0] == 'pf':
            try:
                num, den = (int(x) for x in a.split(' '))
                ok = math.isclose(levels[1], float(Fraction(num, den)), rel_tol=1e-12, abs_tol=1e-300)
            except Exception:  # noqa
                ok = False
            if not ok:
                res.disagreements.append({'what': 'returned pf differs from the product of level probabilities of the bookkeeping model', 'input': case,
                                          'impl': levels[1], 'model': a[:100]})
            continue
        got = [[int(x) for x in lv.split(':')[0].split(',')] for lv in a.split('|')] if a not in ('', 'bad-request') else None
        if got is None or got[:len(levels)] != levels:
            res.disagreements.append({'what': 'level contents differ from the bookkeeping model (sort / seeds / chain layout)', 'input': case,
                                      'impl': str(levels)[:300], 'model': a[:300]})


def coarse_band_under_config(res, rng):
    """quick and thorough: the estimate on the linear-Gaussian problem stays within a factor 1000 of the exact Phi( -beta ) (the spread observed over seeds at N = 300 is a factor 16 either way) also when globalConfig.atol / rtol (digits for the cycle counters) are 0: a chain that no longer moves
    returns p0^maxSubsets, five orders of magnitude away.  A labelled coarse statistical check with fixed seeds, not a theorem"""
    from scipy import stats
    from ffpack.config import globalConfig
    name, N, p0 = 'linear2far', 300, 0.1             # beta = 4.24, pf = 1.1e-5: five to six levels
    exact = float(stats.norm.cdf(-problems()[name][4]))
    for config in ((0, 0), (0, 5), None):
        old = (globalConfig.atol, globalConfig.rtol)
        sd = rng.randrange(10 ** 6)
        case = {'problem': name, 'numSamples': N, 'probLevel': p0, 'maxSubsets': 10, 'seed': sd, 'globalConfig': config, 'exact_pf': exact}
        try:
            if config:
                globalConfig.atol, globalConfig.rtol = config
            r = traced_run(name, N, p0, 10, sd)
        except Exception as e:  # noqa
            fail(res, 'subsetSimulation raised under a changed global configuration: ' + repr(e)[:120], case, None)
            continue
        finally:
            globalConfig.atol, globalConfig.rtol = old
        res.evaluations += 1
        res.stat('coarse_band_config_' + ('default' if config is None else 'atol%d_rtol%d' % config))
        moved = sum(1 for ch in r['chains'] if len(set(ch)) > 1)
        if not (exact / 1000 <= r['pf'] <= exact * 1000):
            fail(res, 'estimate more than a factor 1000 from the exact failure probability of the linear-Gaussian problem', case,
                 {'pf': r['pf'], 'levels': int(r['lsf'].shape[0]), 'chains_that_moved': moved, 'chains': len(r['chains'])})


def band_under_global_seed(res):
    """a labelled coarse statistical check with FIXED seeds (identical on every run): with an integer seed installed through
    globalConfig.setSeed and no randomSeed argument, the estimate for g = 3 - x (exact Phi( -3 )) at N = 500 stays within a factor 8 of the
    exact value in at least four of six runs (global seeds 1 … 6; on the unchanged tree all six do, between 0.2 and 2.5).  Chains that all
    restart from the same random stream move in lock-step and miss the band by orders of magnitude"""
    from scipy import stats
    from ffpack.config import globalConfig
    exact = float(stats.norm.cdf(-3.0))
    ratios = []
    for gs in (1, 2, 3, 4, 5, 6):
        try:
            globalConfig.setSeed(gs)
            r = traced_run('linear1', 500, 0.1, 8, None)
            ratios.append(r['pf'] / exact)
        except Exception as e:  # noqa
            ratios.append(float('nan'))
        finally:
            globalConfig.setSeed(None)
        res.evaluations += 1
        res.stat('band_under_installed_global_seed')
    inside = sum(1 for q in ratios if q == q and 1 / 8 <= q <= 8)
    res.extra['band_under_global_seed'] = {'ratios_to_exact': ratios, 'inside_factor_8': inside}
    if inside < 4:
        fail(res, 'estimates under an installed global seed (no randomSeed argument) leave the factor-8 band around the exact failure probability in more than two of six runs',
             {'problem': 'g = 3 - x, x ~ N(0,1)', 'numSamples': 500, 'probLevel': 0.1, 'global_seeds': [1, 2, 3, 4, 5, 6]}, {'pf_over_exact': ratios})


def statistical(res, rng):
    """thorough tier only: a labelled statistical test, not a theorem (DESIGN §7)"""
    from scipy import stats
    name, N, p0 = 'linear2', 500, 0.1
    beta = problems()[name][4]
    exact = stats.norm.cdf(-beta)
    inside = 0
    runs = 12
    for _ in range(runs):
        r = traced_run(name, N, p0, 10, rng.randrange(10 ** 6))
        m = r['lsf'].shape[0]
        delta = math.sqrt(m * (1 - p0) / (p0 * N) * (1 + 3.0))
        if abs(r['pf'] - exact) <= 3 * delta * exact:
            inside += 1
    res.extra['statistical_test'] = {'runs': runs, 'within_3_delta': inside, 'exact_pf': exact,
                                     'note': 'distributional clause; labelled statistical test, not a theorem'}
    if inside < 0.75 * runs:
        fail(res, 'estimate outside the statistical error band on the linear-Gaussian problem', {'runs': runs, 'inside': inside}, None)


def run(tier, seed):
    res = core.Result(PID, tier, seed)
    res.rule = ('seven limit states (linear-Gaussian 2D/3D, lognormal product, quadratic, clipped at zero, integer-valued, correlated lognormal-exponential with non-default quadrature), some runs after changing globalConfig.atol/rtol, x sample sizes / level probabilities incl. '
                'p0*N*floor(1/p0) < N and non-integer p0*N x seeds; distinct by (problem, N, p0, maxSubsets, seed)')
    core.prove(res, PID, MODULES, clean=(tier == 'thorough'))
    n = 12 if tier == 'quick' else 300
    rng = random.Random(seed)
    explore(res, rng, n)
    coarse_band_under_config(res, random.Random(seed + 11))
    band_under_global_seed(res)
    if tier == 'thorough':
        statistical(res, rng)
    res.disagreements_checked = res.traces
    res.trusted += ['hand-written model FF.Subset of the level bookkeeping (sort, threshold, stored probability, buffer layout), tied by '
                    'trace validation: the chain evolution is observed by wrapping the limit state and the sampler class from outside and '
                    'replayed through the model on an order- and sign-preserving integer image of the limit-state values',
                    'the last sentence of the property (statistical error band) is a distributional claim: labelled statistical test in '
                    'the thorough tier only', 'pf clause decided for runs that reach the zero level (else pf = p0^maxSubsets)',
                    'the returned pf is compared with Subset.pf of the model run (product of the stored level probabilities, p0 as the exact binary fraction) at 1e-12; the chain contract used by the nestedness theorem is derived from the sampler model of C14 (chain_contract)']
    return core.finish(res)


def replay(path):
    d = json.load(open(path))
    f = d.get('failure')
    if not f:
        print('replay file names a broken obligation/tie, no input to replay:', json.dumps(d.get('no_longer_checks'))[:800])
        return 1
    c = f['input']
    print('recorded:', json.dumps(f)[:800])
    if 'problem' in c:
        import numpy as np
        r = traced_run(c['problem'], c['numSamples'], c['probLevel'], c['maxSubsets'], c['seed'])
        nc = int(c['probLevel'] * c['numSamples'])
        bad = 0
        for k in range(r['lsf'].shape[0] - 1):
            bad += int(np.sum(r['lsf'][k + 1] > max(r['lsf'][k][nc - 1], 0.0)))
        print('replayed: samples above their threshold =', bad)
        return 0 if bad == 0 else 1
    return 1
