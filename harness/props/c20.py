"""C20 — numerical derivatives are exact on polynomials; orthogonalisation is orthonormal (DESIGN §5 C20)"""
import json
import math
import os
import random
from fractions import Fraction
import core
import gen

PID = 'C20'
MODULES = ['FFVerif.Proofs.C20', 'FFVerif.Proofs.C20Gram', 'FFVerif.Proofs.C20Grad', 'FFVerif.Proofs.C20Align', 'FFVerif.Proofs.C20GramModel', 'FFVerif.Proofs.C20Deriv', 'FFVerif.Proofs.C20Hess']


def fail(res, clause, case, out):
    res.failures.append({'signature': 'C20:' + clause + ':' + json.dumps(case, default=str), 'clause': clause, 'input': case,
                         'impl_output': out})


def poly_eval(c, x):
    return sum(ci * x ** i for i, ci in enumerate(c))


def poly_deriv(c, n):
    for _ in range(n):
        c = [i * ci for i, ci in enumerate(c)][1:]
    return c


def explore(res, rng, n):
    core.import_impl()
    import numpy as np
    from ffpack import utils
    # ---- the hard-coded tables, as extracted from the current source
    gen.regenerate(res, ['DiffTables'])
    ans = core.driver_batch(['c20tables'])[0]
    for item in ans.split():
        nn, m, ok = item.split(':')
        res.evaluations += 1
        res.stat('table_entries')
        if ok != '1':
            fail(res, 'hard-coded table violates the moment conditions', {'n': int(nn), 'order': int(m)}, None)
    # ---- general weights vs the exact rational solution
    # (up to 21 points: the Vandermonde system then holds 10**20; the float solve is still good to 1e-9 of the largest weight)
    combos = [(m, k) for m in (3, 5, 7, 9, 11, 13, 17, 21) for k in range(1, m) if k <= 4]
    for (m, k), a in zip(combos, core.driver_batch([f'c20weights {m} {k}' for m, k in combos])):
        res.evaluations += 1
        res.traces += 1
        toks = a.split()
        if toks[0] != 'ok':
            res.disagreements.append({'what': 'exact solver failed its own moment check', 'input': [m, k], 'model': a})
            continue
        exact = [Fraction(t) for t in toks[1:]]
        import warnings
        warnings.simplefilter('ignore')            # (scipy warns about the conditioning of the large systems)
        w = utils.centralDiffWeights(m, k)
        # the caller may scale the weights in place (w /= h**n, as in the documentation): a later call is not affected by that
        w_first = np.array(w, dtype=float)
        try:
            w *= 7.0
        except Exception:  # noqa (a read-only result cannot be aliased)
            pass
        w = utils.centralDiffWeights(m, k)
        if not np.array_equal(np.array(w, dtype=float), w_first):
            fail(res, 'a second call returns weights altered by what the caller did to the first result', {'Np': m, 'ndiv': k},
                 [list(map(float, w)), w_first.tolist()])
        tol = 1e-7 * max(abs(float(x)) for x in exact)
        if len(w) != m or any(abs(float(wi) - float(e)) > tol for wi, e in zip(w, exact)):
            fail(res, 'centralDiffWeights differs from the solution of the moment system', {'Np': m, 'ndiv': k},
                 [list(map(float, w)), list(map(float, exact))])
        res.nontrivial.add(('weights', m, k))
    # ---- derivative / gradient / hessian on polynomials: exact up to rounding
    for i in range(n):
        order = rng.choice([3, 5, 7, 9, 11])
        nd = rng.choice([k for k in (0, 1, 1, 2, 2, 3, 4) if k < order])          # n = 0 (the value itself) is a valid derivative order
        deg = rng.randrange(0, order)
        c = [rng.randint(-9, 9) for _ in range(deg + 1)]
        x0 = rng.choice([0.0, 1.0, -2.5, 0.375, 3.0])
        dx = rng.choice([1.0, 0.5, 0.25, 0.125, 2.0])
        got = utils.derivative(lambda x: poly_eval(c, x), x0, dx=dx, n=nd, order=order)
        want = float(poly_eval(poly_deriv(c, nd), Fraction(x0)))
        scale = max(1.0, sum(abs(ci) * (abs(x0) + order * dx) ** j for j, ci in enumerate(c))) / dx ** nd
        res.evaluations += 1
        res.nontrivial.add(('deriv', order, nd, tuple(c), x0, dx))
        res.stat('derivative_table' if nd in (1, 2) and order in (3, 5, 7, 9) else 'derivative_general')
        if abs(got - want) > 1e-9 * scale * (1e3 if order == 11 else 1):
            fail(res, 'derivative not exact on a polynomial of degree < order', {'coeffs': c, 'x0': x0, 'dx': dx, 'n': nd, 'order': order},
                 [got, want])
        if i < 3:
            res.samples.append({'coeffs': c, 'x0': x0, 'dx': dx, 'n': nd, 'order': order})
    for i in range(max(3, n // 10)):
        nv = rng.choice([2, 3])
        A = [[rng.randint(-5, 5) for _ in range(nv)] for _ in range(nv)]
        b = [rng.randint(-5, 5) for _ in range(nv)]
        f = lambda x: sum(A[i][j] * x[i] * x[j] for i in range(nv) for j in range(nv)) + sum(b[i] * x[i] for i in range(nv))
        pt = [rng.choice([0.0, 1.0, -0.5, 2.0]) for _ in range(nv)]
        dx = rng.choice([0.5, 0.125, 1.0])
        g = utils.gradient(f, nv, n=1, dx=dx, order=3)
        H = utils.hessianMatrix(f, nv, dx=dx, order=3)
        res.evaluations += 1
        for a in range(nv):
            want = sum((A[a][j] + A[j][a]) * pt[j] for j in range(nv)) + b[a]
            if abs(g[a](list(pt)) - want) > 1e-9 * (1 + abs(want)):
                fail(res, 'gradient not exact on a quadratic', {'A': A, 'b': b, 'point': pt, 'dx': dx}, [g[a](list(pt)), want])
            for c2 in range(nv):
                hv = H[a][c2](list(pt))
                if abs(hv - (A[a][c2] + A[c2][a])) > 1e-8 * (1 + abs(A[a][c2] + A[c2][a])):
                    fail(res, 'Hessian of a quadratic form is not its symmetric matrix', {'A': A, 'point': pt, 'dx': dx},
                         [hv, A[a][c2] + A[c2][a]])
    # ---- gradient / Hessian at every stencil size on multivariate polynomials of total degree < order
    for i in range(max(4, n // 10)):
        order = rng.choice([3, 5, 5, 7, 9])
        nv = rng.choice([2, 3])
        monos = []
        for _ in range(rng.choice([2, 3, 5])):
            e = [0] * nv
            for _k in range(rng.randrange(0, order)):
                e[rng.randrange(nv)] += 1
            monos.append((rng.randint(-4, 4), tuple(e)))
        def f(x, monos=monos):
            return sum(cf * math.prod(x[k] ** e[k] for k in range(len(e))) for cf, e in monos)
        def dmono(cf, e, k):
            if e[k] == 0:
                return (0, e)
            e2 = list(e); e2[k] -= 1
            return (cf * e[k], tuple(e2))
        pt = [rng.choice([0.0, 1.0, -0.5, 2.0, 0.75]) for _ in range(nv)]
        dx = rng.choice([0.5, 0.25, 1.0])
        g = utils.gradient(f, nv, n=1, dx=dx, order=order)
        H = utils.hessianMatrix(f, nv, dx=dx, order=order)
        res.evaluations += 1
        res.stat('grad_hess_order_%d' % order)
        mag = max(1.0, sum(abs(cf) * math.prod((abs(p) + order * dx) ** e[k] for k, p in enumerate(pt)) for cf, e in monos))
        case = {'monomials': monos, 'point': pt, 'dx': dx, 'order': order}
        for a in range(nv):
            want = sum(c2 * math.prod(pt[k] ** e2[k] for k in range(nv)) for c2, e2 in (dmono(cf, e, a) for cf, e in monos))
            if abs(g[a](list(pt)) - want) > 1e-10 * mag / dx:
                fail(res, 'gradient not exact on a polynomial of degree < order', case, [g[a](list(pt)), want])
            for b2 in range(nv):
                wanth = sum(c3 * math.prod(pt[k] ** e3[k] for k in range(nv))
                            for c3, e3 in (dmono(*dmono(cf, e, a), b2) for cf, e in monos))
                hv = H[a][b2](list(pt))
                if abs(hv - wanth) > 1e-9 * mag / dx ** 2:
                    fail(res, 'Hessian not exact on a polynomial of degree < order', case, {'entry': [a, b2], 'got': hv, 'want': wanth})
    # ---- the evaluation point in single precision (a float32 scalar, a row of a float32 array): the abscissae x0 + k dx must still
    # be formed in binary64 - with a decimal step the float32 sum x0 + k dx is off by 1e-4 dx and the quotient by as much
    for i in range(max(4, n // 10)):
        order = rng.choice([3, 5, 7])
        nd = rng.choice([1, 2])
        deg = rng.randrange(1, order)
        c = [rng.randint(-9, 9) for _ in range(deg)] + [rng.choice([-3, 2, 5])]
        x0 = rng.choice([1.0, -2.5, 0.375, 3.0])
        dx = rng.choice([1e-3, 0.01, 0.1])
        res.evaluations += 1
        res.stat('float32_evaluation_point')
        case = {'coeffs': c, 'x0': 'np.float32(%r)' % x0, 'dx': dx, 'n': nd, 'order': order}
        try:
            g64 = utils.derivative(lambda x: poly_eval(c, x), x0, dx=dx, n=nd, order=order)
            g32 = utils.derivative(lambda x: poly_eval(c, x), np.float32(x0), dx=dx, n=nd, order=order)
        except Exception as e:  # noqa
            fail(res, 'derivative raised at a float32 point: ' + type(e).__name__, case, None)
            continue
        want = float(poly_eval(poly_deriv(c, nd), Fraction(x0)))
        scale = max(1.0, sum(abs(ci) * (abs(x0) + order * dx) ** j for j, ci in enumerate(c))) / dx ** nd
        if abs(float(g32) - want) > max(1e-8 * scale, 10 * abs(float(g64) - want)):
            fail(res, 'derivative at a float32 point loses the accuracy it has at the same point in binary64', case, [float(g32), float(g64), want])
        nv = 2
        A = [[rng.randint(-5, 5) for _ in range(nv)] for _ in range(nv)]
        f2 = lambda x: sum(A[i][j] * x[i] * x[j] for i in range(nv) for j in range(nv))
        pt = [rng.choice([1.0, -0.5, 2.0, 3.0]) for _ in range(nv)]
        gq = utils.gradient(f2, nv, n=1, dx=dx, order=3)
        for a in range(nv):
            want = sum((A[a][j] + A[j][a]) * pt[j] for j in range(nv))
            v32 = float(gq[a](np.array(pt, dtype=np.float32)))
            v64 = float(gq[a](np.array(pt, dtype=float)))
            if abs(v32 - want) > max(1e-8 * (1 + abs(want)) / dx, 10 * abs(v64 - want)):
                fail(res, 'gradient at a float32 point loses the accuracy it has at the same point in binary64', {'A': A, 'point': pt, 'dx': dx}, [v32, v64, want])
    # ---- Gram-Schmidt: a column that is nearly (not exactly) a multiple of the alignment vector; the matrix is of full rank
    # (condition number ~ 1/angle), so the clause applies; orthonormality is lost at most in proportion to the condition number
    for ang in (1e-5, 1e-6, 1e-7, 3e-8):
        for variant in range(4):
            d = rng.choice([3, 4])
            while True:
                Mn = np.array([[float(rng.randint(-3, 3)) for _ in range(d)] for _ in range(d)])
                if abs(np.linalg.det(Mn)) >= 1.0:
                    break
            jn = rng.randrange(1, d)
            w = np.array([float(rng.randint(-3, 3)) for _ in range(d)])
            if variant % 2 == 0:
                # default alignment (first column); column jn nearly parallel to it
                a = Mn[:, 0].copy()
                w = w - (w @ a) / (a @ a) * a
                if np.linalg.norm(w) < 0.5:
                    continue
                Mn[:, jn] = rng.choice([1.0, -2.0, 0.5]) * (a + ang * np.linalg.norm(a) * w / np.linalg.norm(w))
                al = None
            else:
                # explicit alignment vector nearly parallel to column jn
                a = Mn[:, jn].copy()
                w = w - (w @ a) / (a @ a) * a
                if np.linalg.norm(w) < 0.5:
                    continue
                al = rng.choice([1.0, -2.0, 0.5]) * (a + ang * np.linalg.norm(a) * w / np.linalg.norm(w))
            T = np.column_stack([Mn[:, 0] if al is None else al] + [Mn[:, j] for j in range(1, d)])
            sv = np.linalg.svd(T, compute_uv=False)
            if sv[-1] / sv[0] < ang / 50:
                continue
            res.evaluations += 1
            res.stat('gram_schmidt_column_within_%g_rad_of_alignment' % ang)
            case = {'A': Mn.tolist(), 'alignVec': None if al is None else al.tolist(), 'angle': ang}
            try:
                B, J = utils.gramSchmidOrth(Mn.tolist(), None if al is None else al.tolist())
            except Exception as e:  # noqa
                fail(res, 'Gram-Schmidt raised on a full-rank matrix with a column close to the alignment vector: ' + type(e).__name__, case, None)
                continue
            B, J = np.array(B, dtype=float), np.array(J, dtype=float)
            a0 = Mn[:, 0] if al is None else al
            tol = max(1e-9, 1e-15 / ang * 100)
            if not (np.all(np.isfinite(B)) and np.allclose(B.T @ B, np.eye(d), atol=tol) and np.allclose(B[:, 0], a0 / np.linalg.norm(a0), atol=1e-9)):
                fail(res, 'Gram-Schmidt columns not orthonormal / first column wrong: a column within %g rad of the alignment vector (full rank)' % ang, case,
                     np.nan_to_num(B, nan=-999.0).tolist())
    # ---- Gram-Schmidt
    for i in range(max(5, n // 5)):
        d = rng.choice([2, 3, 4])
        while True:
            M = np.array([[float(rng.randint(-4, 4)) for _ in range(d)] for _ in range(d)])
            v = np.array([float(rng.randint(-4, 4)) for _ in range(d)])
            if abs(np.linalg.det(M)) < 1.0 or np.linalg.norm(v) == 0:
                continue
            T = np.column_stack([v] + [M[:, j] for j in range(1, d)])
            if abs(np.linalg.det(T)) >= 1.0:
                break
        # the clause is scale free: the same matrix in units of 1e-6 .. 1e6; alignment vectors close to (not on) a column
        sc = rng.choice([1.0, 1.0, 1e-6, 1e-4, 1e-9, 1e6])
        vs = rng.choice([1.0, 1.0, 1e-5, 1e3])
        if rng.random() < 0.2:
            jn = rng.randrange(1, d)
            v2 = M[:, jn] + 1e-3 * np.array([float(rng.randint(-3, 3)) for _ in range(d)])
            T2 = np.column_stack([v2] + [M[:, j] for j in range(1, d)])
            if abs(np.linalg.det(T2)) > 1e-4:
                v = v2
                res.stat('gram_schmidt_near_parallel_alignment')
        M = M * sc
        v = v * vs
        if rng.random() < 0.25:
            # default alignment vector (None = the first column), at every scale
            Bd, Jd = utils.gramSchmidOrth(M.tolist())
            Bd, Jd = np.array(Bd), np.array(Jd)
            res.evaluations += 1
            res.stat('gram_schmidt_default_alignment')
            cased = {'A': M.tolist(), 'alignVec': None}
            if not np.allclose(Bd.T @ Bd, np.eye(d), atol=1e-9):
                fail(res, 'Gram-Schmidt columns not orthonormal', cased, (Bd.T @ Bd).tolist())
            if not np.allclose(Bd[:, 0], M[:, 0] / np.linalg.norm(M[:, 0]), atol=1e-9):
                fail(res, 'first column is not the normalised alignment vector', cased, Bd[:, 0].tolist())
            if not np.allclose(Jd @ M, Bd, atol=1e-8):
                fail(res, 'J A != B', cased, (Jd @ M).tolist())
        try:
            B, J = utils.gramSchmidOrth(M.tolist(), v.tolist())
        except Exception as e:  # noqa
            fail(res, 'Gram-Schmidt raised on a full-rank matrix and an independent non-zero alignment vector: ' + type(e).__name__ + ' ' + str(e)[:80],
                 {'A': M.tolist(), 'alignVec': v.tolist()}, None)
            continue
        B, J = np.array(B), np.array(J)
        res.evaluations += 1
        res.stat('gram_schmidt' + ('' if sc == 1.0 else '_scaled'))
        if np.any(v == 0):
            res.stat('gram_schmidt_alignment_with_zero_component')
        case = {'A': M.tolist(), 'alignVec': v.tolist()}
        if not np.allclose(B.T @ B, np.eye(d), atol=1e-9):
            fail(res, 'Gram-Schmidt columns not orthonormal', case, (B.T @ B).tolist())
        if not np.allclose(B[:, 0], v / np.linalg.norm(v), atol=1e-9):
            fail(res, 'first column is not the normalised alignment vector', case, B[:, 0].tolist())
        if not np.allclose(J @ M, B, atol=1e-8):
            fail(res, 'J A != B', case, (J @ M).tolist())
    # non-symmetric corpus (row norms differ from column norms), default and explicit alignment vectors
    for Mc, vc in (([[1, 1], [0, 1]], None), ([[1, 1, 0], [0, 1, 0], [0, 0, 1]], None), ([[0, 0, 1], [0, 1, 1], [1, 0, 1]], [0, 1, 1]),
                   ([[2, 0, 0], [3, 1, 0], [1, 4, 1]], None), ([[1, 5], [0, 1]], [1, 1]),
                   ([[1, 1], [0, 1e-3]], None), ([[1, 1], [0, 4e-3]], [1, 0]), ([[1, 0, 1], [0, 1, 0], [0, 0, 2e-3]], None)):
        Mc = np.array(Mc, dtype=float)
        res.evaluations += 1
        res.stat('gram_schmidt_nonsymmetric_corpus')
        case = {'A': Mc.tolist(), 'alignVec': vc}
        try:
            B, J = utils.gramSchmidOrth(Mc.tolist(), vc) if vc is not None else utils.gramSchmidOrth(Mc.tolist())
        except Exception as e:  # noqa
            fail(res, 'Gram-Schmidt raised on a full-rank matrix: ' + type(e).__name__, case, None)
            continue
        B, J = np.array(B), np.array(J)
        a0 = np.array(vc, dtype=float) if vc is not None else Mc[:, 0]
        if not np.allclose(B.T @ B, np.eye(len(Mc)), atol=1e-9) or not np.allclose(B[:, 0], a0 / np.linalg.norm(a0), atol=1e-9) or not np.allclose(J @ Mc, B, atol=1e-8):
            fail(res, 'Gram-Schmidt columns not orthonormal / first column / J A = B', case, np.nan_to_num(B, nan=-999.0).tolist())
    # nearly dependent trailing columns (condition number up to 3e7): orthonormal to 1e-7, the tolerance of the library's own tests
    for e in (1e-4, 1e-6, 1e-7):
        M = np.array([[1, 0, 0, 0], [0, 1, e, 0], [0, 1, 0, e], [0, 1, 0, 0]], dtype=float).T
        v = np.array([2.0, 1.0, -1.0, 0.5])
        B, J = utils.gramSchmidOrth(M.tolist(), v.tolist())
        B, J = np.array(B), np.array(J)
        res.evaluations += 1
        res.stat('gram_schmidt_ill_conditioned')
        case = {'A': M.tolist(), 'alignVec': v.tolist()}
        if not np.allclose(B.T @ B, np.eye(4), atol=1e-7):
            fail(res, 'Gram-Schmidt columns not orthonormal (nearly dependent columns)', case, float(np.abs(B.T @ B - np.eye(4)).max()))
        if not np.allclose(J @ M, B, atol=1e-7):
            fail(res, 'J A != B', case, None)


def deriv_model_stream(res, rng, k):
    """the executable Lean model of `derivative` with the regenerated weight tables (Model/Deriv.lean) against the implementation, on
    polynomials, at decimal and dyadic steps"""
    core.import_impl()
    from ffpack import utils
    from formmodel import fcsv, unbits
    reqs, meta = [], []
    for _ in range(k):
        n = rng.choice([1, 2])
        m = rng.choice([3, 5, 7, 9])
        deg = rng.randrange(0, m + 2)            # also beyond the exactness range: the model is the same stencil, not the derivative
        c = [float(rng.randint(-9, 9)) for _ in range(deg + 1)]
        x0 = rng.choice([0.0, 1.0, -2.5, 0.375, 3.0, 10.0])
        dx = rng.choice([1.0, 0.5, 0.125, 1e-3, 0.01, 0.1])
        res.evaluations += 1
        res.stat('deriv_model_stencil_%d_%d' % (n, m))
        got = float(utils.derivative(lambda x: poly_eval(c, x), x0, dx=dx, n=n, order=m))
        reqs.append('deriv %d %d %s %s %s' % (n, m, fcsv(c), fcsv([x0]), fcsv([dx])))
        scale = max(1.0, sum(abs(ci) * (abs(x0) + m * dx) ** j for j, ci in enumerate(c))) / dx ** n
        meta.append(({'coeffs': c, 'x0': x0, 'dx': dx, 'n': n, 'order': m}, got, scale))
    for (case, got, scale), a in zip(meta, core.driver_batch(reqs)):
        res.traces += 1
        mv = unbits(a) if a != 'bad-request' else []
        if len(mv) != 1 or not (abs(mv[0] - got) <= 1e-12 * scale * 1e3):
            res.disagreements.append({'what': 'derivative vs model (regenerated table, stencil sum, division by dx^n)', 'input': case, 'impl': got, 'model': mv})


def gradhess_model_stream(res, rng, k):
    """the executable Lean models of `gradient` and `hessianMatrix` (Model/Deriv.lean: the stencil along one coordinate, the gradient of each
    gradient component) with the regenerated first-derivative tables against the implementation, on quadratic functions (stencil sizes 3-9,
    decimal and dyadic steps)"""
    core.import_impl()
    import numpy as np
    from ffpack import utils
    from formmodel import fcsv, unbits
    reqs, meta = [], []
    for _ in range(k):
        d = rng.choice([1, 2, 3])
        m = rng.choice([3, 5, 7, 9])
        c0 = float(rng.randint(-5, 5))
        b = np.array([float(rng.randint(-5, 5)) for _ in range(d)])
        Q = np.array([[float(rng.randint(-4, 4)) for _ in range(d)] for _ in range(d)])
        x = np.array([rng.choice([0.0, 1.0, -0.5, 2.0, 0.75, 10.0]) for _ in range(d)])
        dx = rng.choice([0.5, 0.125, 1e-2, 1e-3, 0.1])
        f = lambda X, c0=c0, b=b, Q=Q: c0 + float(b @ np.array(X, dtype=float)) + float(np.array(X, dtype=float) @ Q @ np.array(X, dtype=float))
        case = {'c0': c0, 'b': b.tolist(), 'Q': Q.tolist(), 'point': x.tolist(), 'dx': dx, 'order': m}
        res.evaluations += 1
        res.stat('gradhess_model_order_%d' % m)
        try:
            g = utils.gradient(f, d, n=1, dx=dx, order=m)
            H = utils.hessianMatrix(f, d, dx=dx, order=m)
            gv = [float(g[i](x.tolist())) for i in range(d)]
            Hv = [float(H[i][j](x.tolist())) for i in range(d) for j in range(d)]
        except Exception as e:  # noqa
            fail(res, 'gradient / hessianMatrix raised on a quadratic: ' + repr(e)[:100], case, None)
            continue
        reqs.append('gradhess %d %d %s %s %s %s %s' % (m, d, fcsv([c0]), fcsv(b), fcsv(Q.flatten()), fcsv(x), fcsv([dx])))
        mag = 1.0 + abs(c0) + float(np.sum(np.abs(b)) * (np.max(np.abs(x)) + m * dx)) + float(np.sum(np.abs(Q))) * (float(np.max(np.abs(x))) + m * dx) ** 2
        meta.append((case, gv, Hv, mag, dx))
    for (case, gv, Hv, mag, dx), a in zip(meta, core.driver_batch(reqs)):
        res.traces += 1
        try:
            mg, mH = (unbits(t) for t in a.split(' '))
            ok = len(mg) == len(gv) and len(mH) == len(Hv) and all(abs(p - q) <= 1e-12 * mag / dx * 1e3 for p, q in zip(mg, gv)) and \
                all(abs(p - q) <= 1e-12 * mag / dx ** 2 * 1e4 for p, q in zip(mH, Hv))
        except Exception:  # noqa
            mg, mH, ok = a[:80], None, False
        if not ok:
            res.disagreements.append({'what': 'gradient / hessianMatrix vs model (stencil along a coordinate, gradient of the gradient)', 'input': case,
                                      'impl': [gv, Hv], 'model': [mg, mH]})


def gram_model_stream(res, rng, k):
    """the executable Lean model of gramSchmidOrth (Model/Gram.lean: coincidence test, column re-arrangement, the two loops) against
    the implementation, column by column, on well-conditioned integer matrices: default alignment, a generic alignment vector, an exact
    positive / negative multiple of a column (also of several), a vector close to but not on a column"""
    core.import_impl()
    import numpy as np
    from ffpack import utils
    from formmodel import fcsv, unbits
    reqs, meta = [], []
    for _ in range(k):
        d = rng.choice([2, 3, 3, 4, 5])
        M = np.array([[float(rng.randint(-4, 4)) for _ in range(d)] for _ in range(d)])
        if abs(np.linalg.det(M)) < 1.0:
            continue
        r = rng.random()
        al, kind = None, 'default'
        if r < 0.3:
            al, kind = np.array([float(rng.randint(-4, 4)) for _ in range(d)]), 'generic'
        elif r < 0.55:
            al, kind = M[:, rng.randrange(1, d)] * rng.choice([1.0, -2.0, 0.5, -1.0, 3.0]), 'multiple_of_a_column'
        elif r < 0.65:
            j = rng.randrange(1, d)
            al, kind = M[:, j] + 1e-3 * np.array([float(rng.randint(-3, 3)) for _ in range(d)]), 'near_a_column'
        elif r < 0.72 and d >= 3:
            # two columns that are multiples of the alignment vector cannot occur in a full-rank matrix; a multiple of column 0 can
            al, kind = M[:, 0] * rng.choice([2.0, -1.0]), 'multiple_of_column_0'
        if al is not None:
            if np.linalg.norm(al) == 0:
                continue
            # what the orthogonalisation is handed: alignVec and the columns 1.. (or all but the coinciding one)
            cosines = [abs(float(M[:, j] @ al)) / (np.linalg.norm(M[:, j]) * np.linalg.norm(al)) for j in range(d)]
            hit = [j for j in range(1, d) if cosines[j] > 1 - 1e-14]
            rest = [M[:, j] for j in range(d) if j != hit[-1]] if hit else [M[:, j] for j in range(1, d)]
            T = np.column_stack([al] + rest)
            if abs(np.linalg.det(T)) < 0.5 * max(1.0, float(np.linalg.norm(al))) * 1e-2:
                continue
        res.evaluations += 1
        res.stat('gram_model_' + kind)
        case = {'A': M.tolist(), 'alignVec': None if al is None else al.tolist()}
        try:
            B, _J = utils.gramSchmidOrth(M.tolist(), None if al is None else al.tolist())
        except Exception as e:  # noqa
            fail(res, 'Gram-Schmidt raised on a full-rank matrix: ' + type(e).__name__, case, None)
            continue
        reqs.append('gram %d %s %s' % (d, fcsv(M.T.flatten()), '-' if al is None else fcsv(al)))
        meta.append((case, np.array(B, dtype=float).T.flatten().tolist()))
    for (case, want), a in zip(meta, core.driver_batch(reqs)):
        res.traces += 1
        got = unbits(a) if a != 'bad-request' else []
        if len(got) != len(want) or any(not (abs(g - w) <= 1e-9) for g, w in zip(got, want)):
            res.disagreements.append({'what': 'gramSchmidOrth vs model (matrix B, column by column)', 'input': case, 'impl': want, 'model': got})


def run(tier, seed):
    res = core.Result(PID, tier, seed)
    res.rule = ('the 8 hard-coded tables as extracted from the source; general weights for odd m <= 11; derivative on random integer '
                'polynomials of degree < order at dyadic points/steps; gradient/Hessian on random quadratics; Gram-Schmidt on random '
                'integer matrices with |det| >= 1; distinct by case')
    core.prove(res, PID, MODULES, clean=(tier == 'thorough'))
    n = 300 if tier == 'quick' else 20000
    explore(res, random.Random(seed), n)
    gram_model_stream(res, random.Random(seed + 5), 150 if tier == 'quick' else 5000)
    deriv_model_stream(res, random.Random(seed + 6), 150 if tier == 'quick' else 5000)
    gradhess_model_stream(res, random.Random(seed + 8), 60 if tier == 'quick' else 2000)
    if (res.proof_problems or res.disagreements) and not res.failures:
        explore(res, random.Random(seed + 7919), 4 * n)
    res.disagreements_checked = res.traces
    res.trusted += ['harness/translate.py extracts the literal weight tables from the AST of derivative(); the theorem C20_tables is '
                    're-checked by the kernel against the extracted text on every run',
                    'scipy.linalg.inv / numpy.linalg are external: centralDiffWeights is compared with an exact rational solve done '
                    'in Lean (which checks its own answer against the moment conditions)',
                    'Model/Deriv.lean (derivative / gradient / hessianMatrix with the regenerated tables) and Model/Gram.lean (gramSchmidOrth) are executable models compared with the implementation at Float (1e-9 .. 1e-12 relative to the conditioning); theorems C20Deriv.lean, C20GramModel.lean are about these models']
    return core.finish(res)


def replay(path):
    d = json.load(open(path))
    f = d.get('failure')
    if not f:
        print('replay file names a broken obligation/tie, no input to replay:', json.dumps(d.get('no_longer_checks'))[:800])
        return 1
    print('recorded:', json.dumps(f, default=str)[:1200])
    return 1
