"""C07 — counting matrices are a lossless from-to encoding of the digitised count (DESIGN §5 C07)"""
import json
import os
import random
import core
import cyc
from core import enc_list, enc_cycs, enc_table, to_grid, units, OffGrid

PID = 'C07'
MODULES = ['FFVerif.Proofs.C07']


def enc_matrix(M):
    return ';'.join(','.join(str(v) for v in row) if row else '-' for row in M) if M else '-'


def run_matrix(name, h, s, r):
    core.import_impl()
    from ffpack import lsm, lcc, utils
    data = cyc.floats(h, s)
    res_f = r * 2.0 ** -s if s >= 0 else r / 10 ** (-s)
    try:
        M, keys = getattr(lsm, cyc.MATRIX_API[name])(cyc.as_container(list(data), h, s), res_f)
    except ValueError as e:
        return {'error': 'ValueError', 'msg': str(e)}
    except Exception as e:  # noqa
        return {'error': 'other:' + type(e).__name__}
    try:
        ks = [to_grid(float(k.replace(',', '')), s) for k in keys]
        if M == [[]]:
            M = []
        Mi = [[units(v) for v in row] for row in M]
    except (OffGrid, ValueError) as e:
        return {'error': 'offgrid:' + str(e)}
    return {'M': Mi, 'keys': ks}


def own_count(name, h, s, r):
    """the counter's own outputs on the digitised history (digitised by the implementation)"""
    core.import_impl()
    from ffpack import utils
    resf = r * 2.0 ** -s if s >= 0 else r / 10 ** (-s)
    d = utils.sequenceDigitization(cyc.floats(h, s), resf)
    ref = [core.digitise_ref(v, resf) for v in cyc.floats(h, s)]
    if [float(v) for v in d] != ref:
        bad = [(a, float(b), c) for a, b, c in zip(cyc.floats(h, s), d, ref) if float(b) != c][:3]
        return None, {'error': 'digitised-value-differs-from-rint(d/resolution)*resolution:' + repr(bad)}
    try:
        dh = [to_grid(v, s) for v in d]
    except OffGrid as e:
        return None, {'error': 'digitised-offgrid:' + str(e)}
    return dh, cyc.run_impl(name, dh, s)


def line(out):
    if 'error' in out:
        return 'error:' + out['error']
    return enc_matrix(out['M']) + ' ' + enc_list(out['keys'])


def explore(res, rng, n):
    cases = []
    for _ in range(n):
        h, s = core.gen_history(rng, maxlen=25, closed=(rng.random() < 0.4))
        r = rng.choice([1, 1, 2, 3, 4, 6, 8, 1 << s, 3 << s, 5])
        if h[0] == h[-1] and len(h) > 2 and rng.random() < 0.4:
            # ends that differ on the raw data but fall on the same digitised level
            h = h[:-1] + [h[0] + rng.choice([1, -1]) * rng.randint(1, max(1, (r - 1) // 2))]
        cases.append((h, s, r))
    # decimal grids: data k * 10^-d, resolution r * 10^-d (0.1, 0.3, 0.05 ... not binary fractions); predicates only
    for _ in range(n // 3):
        h, _s = core.gen_history(rng, maxlen=20, closed=(rng.random() < 0.4))
        if max(abs(v) for v in h) < 4096:
            cases.append((h, rng.choice([-1, -1, -2]), rng.choice([1, 1, 2, 3, 5, 7, 10])))
    cases = [([-11, -4, -12, 11], 2, 8), ([0, 1, 0], 0, 4)] + cases
    reqs, meta = [], []
    for h, s, r in cases:
        for name in cyc.NAMES:
            if not (cyc.valid_for(name, h) or (name == 'repeat' and len(h) >= 2)):
                continue
            out = run_matrix(name, h, s, r)
            res.evaluations += 1
            res.stat('fn_' + name)
            dh, own = own_count(name, h, s, r)
            if dh is None:
                # k * resolution is exact on the binary grid, so an off-grid digitised value is not a multiple of the resolution
                res.failures.append({'signature': f'C07:digitise:offgrid:{enc_list(h)}:{s}:{r}',
                                     'clause': 'sequenceDigitization returned a value that is not the nearest multiple of the resolution: ' + own['error'],
                                     'api': 'sequenceDigitization', 'input': h, 'scale': s, 'resolution': r})
                continue
            if len(set(dh)) > 1:
                res.nontrivial.add((name, tuple(h), r))
            if 'error' in own:
                # the counter itself rejects the digitised history (e.g. first != last after rounding)
                res.stat('counter_rejects_digitised')
                continue
            res.stat('empty_count' if not own['seq'] else 'nonempty_count')
            if s >= 0:
                reqs.append(f'matrix {name} {r} {enc_list(h)}')
                meta.append(('corr', name, (h, s, r), out))
            else:
                res.stat('decimal_grid_predicate_only')
            if 'error' in out:
                res.failures.append({'signature': ('C07:empty-count-raises' if not own['seq'] else
                                                   f'C07:{name}:raises:{enc_list(h)}:{r}'),
                                     'clause': 'valid history raised ' + out['error'] + ' ' + out.get('msg', ''),
                                     'api': cyc.MATRIX_API[name], 'input': h, 'scale': s, 'resolution': r,
                                     'own_count': cyc.impl_line(own)})
                continue
            reqs.append(f'c07 {enc_cycs(own["seq"])} {enc_table(own["table"])} {enc_matrix(out["M"])} {enc_list(out["keys"])}')
            meta.append(('pred', name, (h, s, r), out))
    for (kind, name, case, out), a in zip(meta, core.driver_batch(reqs)):
        if kind == 'corr':
            res.traces += 1
            if line(out) != a:
                res.disagreements.append({'what': cyc.MATRIX_API[name] + ' vs model', 'input': list(case),
                                          'impl': line(out), 'model': a})
        elif a != 'ok':
            res.failures.append({'signature': f'C07:{name}:{a}:{enc_list(case[0])}:{case[2]}', 'clause': a,
                                 'api': cyc.MATRIX_API[name], 'input': case[0], 'scale': case[1], 'resolution': case[2],
                                 'impl_output': line(out)})
    res.samples += [{'history': h, 'scale_2^-s': s, 'resolution_on_grid': r} for h, s, r in cases[2:5]]


def caller_array_stream(res, rng, k):
    """the history handed over as a float64 array stays the caller's: it is unchanged after the call, and a later call on the
    same array at another resolution gives what a fresh copy gives (digitising in place would count an already rounded history)"""
    core.import_impl()
    import numpy as np
    from ffpack import lsm, utils
    for _ in range(k):
        h, s = core.gen_history(rng, maxlen=14, closed=True)
        if max(abs(v) for v in h) >= 4096 or len(set(h)) < 2:
            continue
        vals = [v / 10.0 for v in h]
        arr = np.array(vals, dtype=float)
        r1, r2 = rng.choice([(0.5, 0.2), (1.0, 0.3), (0.3, 0.1), (2.0, 0.5)])
        for name in cyc.NAMES:
            if not (cyc.valid_for(name, h)):
                continue
            f = getattr(lsm, cyc.MATRIX_API[name])
            res.evaluations += 1
            res.stat('caller_array_reused')
            case = {'history': vals, 'resolutions': [r1, r2]}
            try:
                f(arr, r1)
                same = arr.tolist() == vals
                second = f(arr, r2)
                fresh = f(list(vals), r2)
            except ValueError:
                arr = np.array(vals, dtype=float)
                continue
            except Exception as e:  # noqa
                res.failures.append({'signature': f'C07:{name}:caller-array:raises', 'clause': 'valid history raised when given as a float64 array: ' + repr(e)[:80],
                                     'api': cyc.MATRIX_API[name], 'input': case})
                arr = np.array(vals, dtype=float)
                continue
            if not same or repr(second) != repr(fresh):
                res.failures.append({'signature': f'C07:{name}:caller-array-modified:{vals}:{r1}:{r2}',
                                     'clause': "the caller's history array was modified / a second call on it at another resolution differs from a call on a fresh copy",
                                     'api': cyc.MATRIX_API[name], 'input': case, 'impl_output': {'array_after': arr.tolist(), 'second': repr(second)[:200], 'fresh': repr(fresh)[:200]}})
                arr = np.array(vals, dtype=float)
        d0 = np.array(vals, dtype=float)
        utils.sequenceDigitization(d0, r1)
        if d0.tolist() != vals:
            res.failures.append({'signature': f'C07:digitise:caller-array-modified:{vals}:{r1}', 'clause': "sequenceDigitization modified the caller's array",
                                 'api': 'sequenceDigitization', 'input': {'history': vals, 'resolution': r1}})


def finer_than_atol(res):
    """resolution finer than 10^-atol: the index keys are strings with atol decimals and collide (recorded design limitation)"""
    core.import_impl()
    from ffpack import lsm
    h = [0.0, 3e-9, 1e-9, 4e-9, 0.0]
    for name in cyc.NAMES:
        if not cyc.valid_for(name, h):
            continue
        res.evaluations += 1
        res.stat('resolution_finer_than_atol')
        try:
            M, keys = getattr(lsm, cyc.MATRIX_API[name])(list(h), 1e-9)
        except Exception as e:  # noqa
            res.failures.append({'signature': f'C07:{name}:raises:fine-resolution', 'clause': 'valid history raised ' + repr(e)[:80], 'api': cyc.MATRIX_API[name], 'input': h})
            continue
        if len(set(keys)) != len(keys):
            res.failures.append({'signature': 'C07:keys-printed-with-atol-decimals:resolution-finer-than-atol', 'clause': 'fail:keys (index keys not distinct)',
                                 'api': cyc.MATRIX_API[name], 'input': h, 'resolution': 1e-9, 'impl_output': keys})


def finer_with_raised_atol(res):
    """the documented way out of the limitation above: with globalConfig.atol raised (12 digits) the keys of a nano-scale history on a 1e-9
    grid are distinct again and the matrix is the matrix of the same history in units of 1e-9 with resolution 1"""
    core.import_impl()
    from ffpack import lsm
    for hi in ([0, 3, 1, 4, 0], [2, 7, 1, 5, 3, 6, 2], [0, 5, 2, 9, 0, 4]):
        h = [v * 1e-9 for v in hi]
        for name in cyc.NAMES:
            if not cyc.valid_for(name, hi):
                continue
            res.evaluations += 1
            res.stat('fine_resolution_under_raised_atol')
            try:
                with cyc.with_atol(12):
                    M, keys = getattr(lsm, cyc.MATRIX_API[name])(list(h), 1e-9)
                M1, keys1 = getattr(lsm, cyc.MATRIX_API[name])([float(v) for v in hi], 1.0)
            except Exception as e:  # noqa
                res.failures.append({'signature': f'C07:{name}:raised-atol:raises:{hi}', 'clause': 'valid history raised under globalConfig.atol = 12: ' + repr(e)[:80],
                                     'api': cyc.MATRIX_API[name], 'input': h, 'resolution': 1e-9})
                continue
            kv = [round(float(k.replace(',', '')) * 1e9) for k in keys]
            kv1 = [round(float(k.replace(',', ''))) for k in keys1]
            if len(set(keys)) != len(keys) or kv != kv1 or M != M1:
                res.failures.append({'signature': f'C07:{name}:raised-atol:{hi}', 'clause': 'with globalConfig.atol = 12 the matrix of a history on a 1e-9 grid is not the matrix of the same history in units of 1e-9',
                                     'api': cyc.MATRIX_API[name], 'input': h, 'resolution': 1e-9, 'impl_output': {'keys': keys, 'keys_unit_history': keys1}})


def run(tier, seed):
    res = core.Result(PID, tier, seed)
    res.rule = ('random histories x resolutions (grid values incl. non powers of two) x seven matrix functions; non-trivial = '
                'digitised history non-constant; distinct by (function, history, resolution)')
    core.prove(res, PID, MODULES, clean=(tier == 'thorough'))
    n = 700 if tier == 'quick' else 15000
    explore(res, random.Random(seed), n)
    finer_than_atol(res)
    finer_with_raised_atol(res)
    caller_array_stream(res, random.Random(seed + 3), 12 if tier == 'quick' else 200)
    if (res.proof_problems or res.disagreements) and not res.failures:
        explore(res, random.Random(seed + 7919), 4 * n)
    res.disagreements_checked = res.traces
    res.trusted += ['hand-written model FF.toMatrix (np.unique as sorted distinct list; the "{:,.8f}" key strings parsed back to grid values) '
                    'composed with the digitisation and counter models, tied by exact correspondence']
    # (last: a shared default object polluted here must not disturb the streams above)
    core.import_impl()
    from ffpack import lsm as _lsm
    _hs = [[0.0, 1.0, 2.0, 3.0], [0.0, 0.2, 0.1, 0.3], [0.0, 2.0, 1.0, 3.0, 0.0], [1.0, 5.0, 1.0], [0.0, 4.0, 1.0, 3.0, 2.0]]
    _calls = []
    for _h in _hs:
        for _name in cyc.NAMES:
            if not (cyc.valid_for(_name, _h)):
                continue
            _calls.append((cyc.MATRIX_API[_name], (lambda _h=_h, _name=_name: getattr(_lsm, cyc.MATRIX_API[_name])(list(_h), 1.0)), f'{_h} resolution=1'))
    cyc.fresh_results(res, _calls)
    return core.finish(res)


def replay(path):
    d = json.load(open(path))
    f = d.get('failure')
    if not f:
        print('replay file names a broken obligation/tie, no input to replay:', json.dumps(d.get('no_longer_checks'))[:500])
        return 1
    name = [k for k, v in cyc.MATRIX_API.items() if v == f['api']][0]
    h, s, r = f['input'], f['scale'], f['resolution']
    out = run_matrix(name, h, s, r)
    dh, own = own_count(name, h, s, r)
    if 'error' in out:
        print('api', f['api'], 'input', h, 'scale', s, 'resolution', r, 'raised', out, 'own count', cyc.impl_line(own))
        return 1
    ans = core.driver_batch([f'c07 {enc_cycs(own["seq"])} {enc_table(own["table"])} {enc_matrix(out["M"])} {enc_list(out["keys"])}'])[0]
    print('api', f['api'], 'input', h, 'scale', s, 'resolution', r, 'impl', line(out), 'predicate', ans)
    return 0 if ans == 'ok' else 1
