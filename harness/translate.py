"""Python-AST -> Lean translator for the closed-form functions of ffpack (DESIGN §2.1 (T)).

Every run re-reads /repo/src, emits one Lean definition per function, generic in the scalar type
(class FF.Transc, instantiated at Float by the driver and at the reals by the proof files), and
rewrites FFVerif/Gen/*.lean only when the text changed.  Anything outside the accepted subset raises
Unsupported: a broken tie, reported by the check, never skipped silently.

Accepted subset: straight-line assignments (SSA), `x = float( x )` (identity), `if c: x = e`, `if c: return e` (the rest is the other branch), statically decided `if flag:` on a
parameter fixed by the caller (normalized=..., tcat=..., k=...), early return, nested defs whose body
is assignments + return, dict-literal lookup by a fixed key, 2-vectors, np.power/exp/log/sqrt/pi,
special.gamma, np.mean of a 2-vector, max.  `raise ValueError` guards become the `_ok` predicate;
isinstance / shape guards are dropped (they are exercised by the malformed-input stream instead).
"""
import ast
import os
import sys

sys.path.insert(0, os.path.dirname(os.path.abspath(__file__)))
import core  # noqa: E402


class Unsupported(Exception):
    pass


BIN = {ast.Add: '+', ast.Sub: '-', ast.Mult: '*', ast.Div: '/'}
CMP = {ast.Lt: 'ltb', ast.LtE: 'leb', ast.Gt: 'gtb', ast.GtE: 'geb', ast.Eq: 'eqb', ast.NotEq: 'neb'}


def lit(v):
    """python number -> exact decimal literal `Transc.lit m e` (= m * 10^-e), sign outside"""
    if isinstance(v, bool):
        raise Unsupported('bool literal')
    neg = v < 0
    v = -v if neg else v
    if isinstance(v, int):
        m, e = v, 0
    else:
        s = repr(float(v))
        if 'e' in s or 'inf' in s or 'nan' in s:
            raise Unsupported('literal ' + s)
        ip, fp = s.split('.')
        fp = fp.rstrip('0')
        m, e = int(ip + fp), len(fp)
    t = f'(Transc.lit {m} {e})'
    return f'(-{t})' if neg else t


class Fn:
    def __init__(self, node, consts=None, vecs=(), lean_name=None):
        self.node = node
        self.consts = dict(consts or {})
        self.vecs = {v: None for v in vecs}      # name -> [scalar names]
        self.ver = {}
        self.lines = []
        self.pre = []
        self.locals_fn = set()
        self.tables = {}                          # name -> list of python values / exprs
        self.lean_name = lean_name or node.name
        self.params = []
        self.done = False

    # ---- names
    def cur(self, n):
        if n not in self.ver:
            raise Unsupported('unknown name ' + n)
        return n if self.ver[n] == 0 else f'{n}_{self.ver[n]}'

    def fresh(self, n):
        self.ver[n] = self.ver[n] + 1 if n in self.ver else 0
        return self.cur(n)

    # ---- expressions
    def const_value(self, n):
        """python value of an expression made of literals and fixed parameters, else None"""
        try:
            return eval(compile(ast.Expression(n), '<c>', 'eval'), {'__builtins__': {}}, dict(self.consts))
        except Exception:
            return None

    def e(self, n):
        if isinstance(n, ast.Constant):
            return lit(n.value)
        if isinstance(n, ast.Name):
            if n.id in self.consts:
                return lit(self.consts[n.id])
            if n.id in self.vecs or n.id in self.tables:
                raise Unsupported('vector used as scalar: ' + n.id)
            return self.cur(n.id)
        if isinstance(n, ast.UnaryOp) and isinstance(n.op, ast.USub):
            return f'(-{self.e(n.operand)})'
        if isinstance(n, ast.BinOp):
            if isinstance(n.op, ast.Pow):
                k = self.const_value(n.right)
                if isinstance(k, int) and k >= 0:
                    return f'(Transc.npow {self.e(n.left)} {k})'
                return f'(Transc.rpow {self.e(n.left)} {self.e(n.right)})'
            if type(n.op) not in BIN:
                raise Unsupported('operator ' + type(n.op).__name__)
            return f'({self.e(n.left)} {BIN[type(n.op)]} {self.e(n.right)})'
        if isinstance(n, ast.Subscript):
            base = n.value
            idx = self.const_value(n.slice)
            if isinstance(base, ast.Name) and base.id in self.vecs and isinstance(idx, int):
                return self.vecs[base.id][idx]
            if isinstance(base, ast.Name) and base.id in self.tables and isinstance(idx, int):
                return self.tables[base.id][idx]
            raise Unsupported('subscript ' + ast.unparse(n))
        if isinstance(n, ast.Call):
            f = ast.unparse(n.func)
            a = n.args
            if f == 'np.power':
                k = self.const_value(a[1])
                if isinstance(k, int) and k >= 0:
                    return f'(Transc.npow {self.e(a[0])} {k})'
                return f'(Transc.rpow {self.e(a[0])} {self.e(a[1])})'
            if f in ('np.exp', 'np.log', 'np.sqrt'):
                return f'(Transc.{f[3:]} {self.e(a[0])})'
            if f == 'special.gamma':
                return f'(Transc.gamma {self.e(a[0])})'
            if f == 'np.mean' and isinstance(a[0], ast.Name) and a[0].id in self.vecs:
                x, y = self.vecs[a[0].id]
                return f'(({x} + {y}) / (Transc.lit 2 0))'
            if f == 'max' and len(a) == 2:
                return f'(Transc.max2 {self.e(a[0])} {self.e(a[1])})'
            if f in self.locals_fn:
                return '(' + f + ' ' + ' '.join(self.e(x) for x in a) + ')'
            raise Unsupported('call ' + f)
        if isinstance(n, ast.Attribute) and ast.unparse(n) == 'np.pi':
            return 'Transc.pi'
        raise Unsupported(ast.dump(n)[:80])

    def cond(self, n):
        if isinstance(n, ast.Compare) and len(n.ops) == 1:
            return f'(Transc.{CMP[type(n.ops[0])]} {self.e(n.left)} {self.e(n.comparators[0])})'
        if isinstance(n, ast.BoolOp):
            op = ' && ' if isinstance(n.op, ast.And) else ' || '
            return '(' + op.join(self.cond(v) for v in n.values) + ')'
        if isinstance(n, ast.UnaryOp) and isinstance(n.op, ast.Not):
            return f'(!{self.cond(n.operand)})'
        raise Unsupported('condition ' + ast.unparse(n))

    @staticmethod
    def is_type_guard(test):
        s = ast.unparse(test)
        return 'isinstance' in s or '.shape' in s

    # ---- statements
    def block(self, stmts):
        for s in stmts:
            if self.done:
                break
            self.stmt(s)

    def stmt(self, s):
        if isinstance(s, ast.Expr) and isinstance(s.value, ast.Constant):
            return
        if isinstance(s, ast.If):
            allraise = all(isinstance(b, ast.Raise) for b in s.body) and not s.orelse
            if self.is_type_guard(s.test):
                if not allraise:
                    raise Unsupported('type guard with a body')
                return
            cv = self.const_value(s.test)
            if cv is not None:                         # decided by the fixed parameters
                if allraise:
                    if cv:
                        raise Unsupported('fixed parameter violates a guard: ' + ast.unparse(s.test))
                    return
                self.block(s.body if cv else s.orelse)
                return
            if allraise:
                self.pre.append(f'!{self.cond(s.test)}')
                return
            if not s.orelse and all(isinstance(b, ast.Assign) for b in s.body):
                c = self.cond(s.test)
                for b in s.body:
                    t = b.targets[0]
                    if not isinstance(t, ast.Name):
                        raise Unsupported('conditional assignment target')
                    if t.id in self.vecs:
                        if not (isinstance(b.value, ast.BinOp) and isinstance(b.value.op, ast.Mult) and
                                isinstance(b.value.left, ast.Name) and b.value.left.id == t.id):
                            raise Unsupported('vector update ' + ast.unparse(b))
                        k = self.e(b.value.right)
                        new = []
                        for i, o in enumerate(self.vecs[t.id]):
                            nm = self.fresh(f'{t.id}{i}')
                            self.lines.append(f'let {nm} : α := bif {c} then {o} * {k} else {o}')
                            new.append(nm)
                        self.vecs[t.id] = new
                    else:
                        old = self.cur(t.id)
                        rhs = self.e(b.value)
                        nm = self.fresh(t.id)
                        self.lines.append(f'let {nm} : α := bif {c} then {rhs} else {old}')
                return
            if not s.orelse and len(s.body) == 1 and isinstance(s.body[0], ast.Return):
                # `if c: return e` - the rest of the function is the other branch
                self.lines.append(f'bif {self.cond(s.test)} then {self.e(s.body[0].value)} else')
                return
            raise Unsupported('if ' + ast.unparse(s.test))
        if isinstance(s, ast.Assign):
            t = s.targets[0]
            v = s.value
            if isinstance(t, ast.Name):
                if isinstance(v, ast.Call) and ast.unparse(v.func) == 'np.array' and isinstance(v.args[0], ast.Name) \
                        and v.args[0].id in self.vecs:
                    return
                # `x = float( x )`: conversion of a real scalar to binary64, the identity in the model (the scalar type of the model
                # is the reals / Float already); what it is there for - narrow numpy integer arguments - is exercised by the
                # narrow-integer stream of the check.  A fixed parameter keeps its value.
                if isinstance(v, ast.Call) and ast.unparse(v.func) == 'float' and len(v.args) == 1 and not v.keywords \
                        and isinstance(v.args[0], ast.Name) and v.args[0].id == t.id:
                    if t.id in self.consts or t.id in self.ver:
                        return
                    raise Unsupported('float() of an unknown name ' + t.id)
                if isinstance(v, ast.Dict):
                    self.tables[t.id] = ('dict', v)
                    return
                tv = self.table_lookup(v)
                if tv is not None:
                    self.tables[t.id] = tv
                    return
                self.lines.append(f'let {self.fresh_after(t.id, self.e(v))}')
                return
            if isinstance(t, (ast.List, ast.Tuple)):
                tv = self.table_lookup(v)
                if tv is None or len(tv) != len(t.elts):
                    raise Unsupported('destructuring ' + ast.unparse(s))
                for el, val in zip(t.elts, tv):
                    self.lines.append(f'let {self.fresh_after(el.id, val)}')
                return
            raise Unsupported('assignment ' + ast.unparse(s))
        if isinstance(s, ast.Return):
            self.lines.append(self.e(s.value))
            self.done = True
            return
        if isinstance(s, ast.FunctionDef):
            sub = Fn(s, consts=self.consts)
            sub.locals_fn = set(self.locals_fn)
            for a in s.args.args:
                sub.ver[a.arg] = 0
            sub.block(s.body)
            if not sub.done or sub.pre:
                raise Unsupported('nested def ' + s.name)
            ps = [a.arg for a in s.args.args]
            body = '\n      '.join(sub.lines)
            self.lines.append(f'let {s.name} : ' + ' → '.join(['α'] * (len(ps) + 1)) + ' := fun ' + ' '.join(ps) +
                              ' =>\n      ' + body)
            self.locals_fn.add(s.name)
            return
        raise Unsupported(type(s).__name__ + ': ' + ast.unparse(s)[:60])

    def fresh_after(self, name, rhs):
        nm = self.fresh(name)
        return f'{nm} : α := {rhs}'

    def table_lookup(self, v):
        """`{...}[k]` or `name[k]` where name is a dict literal and k is fixed -> list of Lean exprs"""
        if isinstance(v, ast.Subscript):
            key = self.const_value(v.slice)
            d = None
            if isinstance(v.value, ast.Dict):
                d = v.value
            elif isinstance(v.value, ast.Name) and isinstance(self.tables.get(v.value.id), tuple):
                d = self.tables[v.value.id][1]
            if d is not None and key is not None:
                for k, val in zip(d.keys, d.values):
                    if self.const_value(k) == key:
                        if isinstance(val, (ast.List, ast.Tuple)):
                            return [self.e(x) for x in val.elts]
                        raise Unsupported('dict value ' + ast.unparse(val))
                raise Unsupported('key not in table')
        return None

    def run(self):
        for a in self.node.args.args:
            if a.arg in self.consts:
                continue
            if a.arg in self.vecs:
                self.vecs[a.arg] = [a.arg + '0', a.arg + '1']
                for nm in self.vecs[a.arg]:
                    self.ver[nm] = 0
                    self.params.append(nm)
            else:
                self.ver[a.arg] = 0
                self.params.append(a.arg)
        self.block(self.node.body)
        if not self.done:
            raise Unsupported('no return in ' + self.node.name)
        ps = ' '.join(self.params)
        body = '\n  '.join(self.lines)
        pre = ' && '.join(self.pre) if self.pre else 'true'
        # the guards are evaluated on the values they see in the code: re-emit the lets in front
        lets = '\n  '.join(l for l in self.lines[:-1] if l.startswith('let '))
        out = f'def {self.lean_name} ({ps} : α) : α :=\n  {body}\n\n'
        out += f'/-- the `raise ValueError` guards of `{self.node.name}`, in source order -/\n'
        out += f'def {self.lean_name}_ok ({ps} : α) : Bool :=\n  ' + (lets + '\n  ' if lets and self.pre else '') + pre + '\n'
        return out


def get_fn(relpath, name):
    path = os.path.join(core.REPO, 'src', 'ffpack', relpath)
    tree = ast.parse(open(path).read())
    for n in tree.body:
        if isinstance(n, ast.FunctionDef) and n.name == name:
            return n
    raise Unsupported(f'{name} not found in {relpath}')


HEADER = '''/-
GENERATED by harness/translate.py from {src} — do not edit.
Regenerated on every check run; the theorems in FFVerif/Proofs are re-checked against this text.
-/
import FFVerif.Model.Scalar
namespace FF.Gen
section
variable {{α : Type}} [Transc α]

'''


# module -> (source file, [(python name, lean name, fixed params, vector params)])
SPEC = {
    'MeanStress': ('lcc/meanStressCorrection.py', [
        ('goodmanCorrection', 'goodmanCorrection', {}, ['stressRange']),
        ('soderbergCorrection', 'soderbergCorrection', {}, ['stressRange']),
        ('gerberCorrection', 'gerberCorrection', {}, ['stressRange']),
    ]),
    'Wave': ('lsm/waveSpectra.py', [
        ('piersonMoskowitzSpectrum', 'piersonMoskowitzSpectrum', {}, []),
        ('jonswapSpectrum', 'jonswapSpectrum', {}, []),
        ('isscSpectrum', 'isscSpectrum', {}, []),
        ('gaussianSwellSpectrum', 'gaussianSwellSpectrum', {}, []),
        ('ochiHubbleSpectrum', 'ochiHubbleSpectrum', {}, []),
    ]),
    'Wind': ('lsm/windSpectra.py',
             [('davenportSpectrumWithDragCoef', 'davenportDragNorm', {'normalized': True}, []),
              ('davenportSpectrumWithDragCoef', 'davenportDragDim', {'normalized': False}, []),
              ('davenportSpectrumWithRoughnessLength', 'davenportRoughNorm', {'normalized': True}, []),
              ('davenportSpectrumWithRoughnessLength', 'davenportRoughDim', {'normalized': False}, []),
              ('ec1Spectrum', 'ec1Norm', {'normalized': True, 'tcat': 0}, [])] +
             [('ec1Spectrum', f'ec1Dim{t}', {'normalized': False, 'tcat': t}, []) for t in range(5)] +
             [('iecSpectrum', 'iecNorm', {'normalized': True, 'k': 1}, [])] +
             [('iecSpectrum', f'iecDim{k}', {'normalized': False, 'k': k}, []) for k in (1, 2, 3)] +
             [('apiSpectrum', 'apiSpectrum', {}, [])]),
}


def generate(module):
    src, fns = SPEC[module]
    text = HEADER.format(src='src/ffpack/' + src)
    arities = []
    for pyname, leanname, consts, vecs in fns:
        f = Fn(get_fn(src, pyname), consts=consts, vecs=vecs, lean_name=leanname)
        text += f.run() + '\n'
        arities.append((leanname, len(f.params)))
    text += 'end\n\n'
    # Float dispatcher for the driver
    text += f'def eval{module} (name : String) (a : Array Float) : Option (Float × Bool) :=\n  match name with\n'
    for nm, k in arities:
        args = ' '.join(f'a[{i}]!' for i in range(k))
        text += f'  | "{nm}" => if a.size = {k} then some ({nm} {args}, {nm}_ok {args}) else none\n'
    text += '  | _ => none\n\nend FF.Gen\n'
    return text


def extract_diff_tables():
    """the hard-coded central-difference tables of utils/derivatives.py::derivative:
    every `weights = np.array( [...] ) [/ d]` under `if n == N:` / `[el]if order == M:`"""
    from fractions import Fraction
    fn = get_fn('utils/derivatives.py', 'derivative')
    out = []

    def const(node):
        v = eval(compile(ast.Expression(node), '<c>', 'eval'), {'__builtins__': {}}, {})
        return Fraction(str(v)) if isinstance(v, float) else Fraction(v)

    def walk_order(node, n):
        while isinstance(node, ast.If):
            t = node.test
            if not (isinstance(t, ast.Compare) and isinstance(t.left, ast.Name) and t.left.id == 'order'
                    and isinstance(t.ops[0], ast.Eq)):
                raise Unsupported('unexpected test in weight table: ' + ast.unparse(t))
            m = int(const(t.comparators[0]))
            if len(node.body) != 1 or not isinstance(node.body[0], ast.Assign):
                raise Unsupported('unexpected body in weight table')
            v = node.body[0].value
            den = Fraction(1)
            if isinstance(v, ast.BinOp) and isinstance(v.op, ast.Div):
                den = const(v.right)
                v = v.left
            if not (isinstance(v, ast.Call) and ast.unparse(v.func) == 'np.array' and isinstance(v.args[0], ast.List)):
                raise Unsupported('weights not a literal array: ' + ast.unparse(node.body[0]))
            nums = [const(e) for e in v.args[0].elts]
            out.append((n, m, nums, den))
            node = node.orelse[0] if len(node.orelse) == 1 else None

    for st in fn.body:
        node = st
        while isinstance(node, ast.If):
            t = node.test
            if isinstance(t, ast.Compare) and isinstance(t.left, ast.Name) and t.left.id == 'n' and isinstance(t.ops[0], ast.Eq):
                walk_order(node.body[0] if node.body and isinstance(node.body[0], ast.If) else None, int(const(t.comparators[0])))
                node = node.orelse[0] if len(node.orelse) == 1 and isinstance(node.orelse[0], ast.If) else None
            else:
                break
    if not out:
        raise Unsupported('no weight table found in derivative()')
    return out


def generate_diff_tables():
    from fractions import Fraction
    from math import lcm
    rows = []
    for n, m, nums, den in extract_diff_tables():
        # integer numerators over one integer denominator
        d = lcm(*[x.denominator for x in nums], 1)
        D = den * d
        if D.denominator != 1:
            k = D.denominator
            nums = [x * k for x in nums]
            D = D * k
        ints = [x * d for x in nums]
        if any(x.denominator != 1 for x in ints):
            raise Unsupported('non-rational weight')
        rows.append(f'  ({n}, {m}, [' + ', '.join(str(int(x)) for x in ints) + f'], {int(D)})')
    text = ('/-\nGENERATED by harness/translate.py from src/ffpack/utils/derivatives.py (function `derivative`) — do not edit.\n'
            'Each entry: (derivative order n, number of points m, integer numerators, common denominator).\n-/\n'
            'namespace FF.Gen\n\ndef diffTables : List (Nat × Nat × List Int × Int) := [\n' + ',\n'.join(rows) + ']\n\nend FF.Gen\n')
    return text


def write_all(modules=None):
    """regenerate; returns {module: (changed, error)}"""
    out = {}
    for m in (modules or list(SPEC) + ['DiffTables']):
        path = os.path.join(core.LEAN, 'FFVerif', 'Gen', m + '.lean')
        try:
            text = generate_diff_tables() if m == 'DiffTables' else generate(m)
        except (Unsupported, SyntaxError, KeyError, AttributeError, IndexError, TypeError) as e:
            out[m] = (False, f'{type(e).__name__}: {e}')
            continue
        old = open(path).read() if os.path.exists(path) else None
        if old != text:
            with core.LeanLock():
                with open(path, 'w') as f:
                    f.write(text)
        out[m] = (old != text, None)
    return out


if __name__ == '__main__':
    for m, (chg, err) in write_all(sys.argv[1:] or None).items():
        print(m, 'changed' if chg else 'unchanged', err or '')
