"""Python-AST -> Lean translator for the closing formulas that are written with numpy vector expressions
(DESIGN §2.1 (T), second part): the three SORM estimates (rrm/secondOrderReliabilityMethod.py: everything after
`ks = np.array( ks, dtype=float )`), the mean-value index of `mvalFOSM` (everything after `lsfRst = g( mus )`) and
`minerDamageModelNaive` (its `return`).

Accepted subset: assignments of expressions and one `return`; expressions over scalars and ONE-level vectors:
  scalars  : names, literals, + - * /, unary minus, `stats.norm.cdf( s )`, `stats.norm.pdf( s )`, `np.sqrt( s )`, `np.real( s )`
  vectors  : a vector name; scalar (op) vector and vector (op) scalar (broadcast); vector (op) vector (zip);
             `np.power( v, s )`, `np.square( v )`, `np.multiply( a, b )`, column slices `M[ :, 0 ]` of a two-column table
  reductions: `np.prod( v )`, `np.sum( v )`
A vector is carried as (source list, element expression in the bound variable); anything else raises Unsupported (a broken tie).
The generated definitions are generic in the scalar class `FF.Transc`; the standard normal cdf / pdf are parameters.
"""
import ast
import os
import sys

sys.path.insert(0, os.path.dirname(os.path.abspath(__file__)))
import core  # noqa: E402
from translate import Unsupported, lit, BIN  # noqa: E402


class Vec:
    """a vector value: `src.map (fun x => elem)`; `src` is a Lean list expression, `elem` uses the variable `x`"""

    def __init__(self, src, elem='x'):
        self.src, self.elem = src, elem

    def lean(self):
        return self.src if self.elem == 'x' else f'({self.src}.map (fun x => {self.elem}))'


class VFn:
    def __init__(self, scalars, vectors, tables=()):
        self.env = {s: s for s in scalars}
        self.vecs = {v: Vec(v) for v in vectors}
        self.tables = set(tables)          # two-column tables given as List (α × α)
        self.lines = []

    def e(self, n):
        """-> str (scalar) or Vec"""
        if isinstance(n, ast.Constant):
            return lit(n.value)
        if isinstance(n, ast.Name):
            if n.id in self.vecs:
                return self.vecs[n.id]
            if n.id in self.env:
                return self.env[n.id]
            raise Unsupported('unknown name ' + n.id)
        if isinstance(n, ast.UnaryOp) and isinstance(n.op, ast.USub):
            v = self.e(n.operand)
            if isinstance(v, Vec):
                return Vec(v.src, f'(-{v.elem})')
            return f'(-{v})'
        if isinstance(n, ast.BinOp):
            if type(n.op) not in BIN:
                raise Unsupported('operator ' + type(n.op).__name__)
            return self.binop(BIN[type(n.op)], self.e(n.left), self.e(n.right))
        if isinstance(n, ast.Subscript):
            # M[ :, k ] of a two-column table
            if isinstance(n.value, ast.Name) and n.value.id in self.tables and isinstance(n.slice, ast.Tuple) and len(n.slice.elts) == 2 \
                    and isinstance(n.slice.elts[0], ast.Slice) and isinstance(n.slice.elts[1], ast.Constant) and n.slice.elts[1].value in (0, 1):
                return Vec(n.value.id, 'x.1' if n.slice.elts[1].value == 0 else 'x.2')
            raise Unsupported('subscript ' + ast.unparse(n))
        if isinstance(n, ast.Call):
            f = ast.unparse(n.func)
            a = [self.e(x) for x in n.args]
            if n.keywords:
                raise Unsupported('keyword arguments in ' + f)
            if f in ('stats.norm.cdf', 'stats.norm.pdf') and len(a) == 1 and not isinstance(a[0], Vec):
                return f'({f[-3:]} {a[0]})'
            if f == 'np.sqrt' and len(a) == 1 and not isinstance(a[0], Vec):
                return f'(Transc.sqrt {a[0]})'
            if f == 'np.real' and len(a) == 1:
                return a[0]
            if f == 'np.power' and len(a) == 2 and isinstance(a[0], Vec) and not isinstance(a[1], Vec):
                return Vec(a[0].src, f'(Transc.rpow {a[0].elem} {a[1]})')
            if f == 'np.square' and len(a) == 1 and isinstance(a[0], Vec):
                return Vec(a[0].src, f'({a[0].elem} * {a[0].elem})')
            if f == 'np.multiply' and len(a) == 2:
                return self.binop('*', a[0], a[1])
            if f in ('np.prod', 'np.sum') and len(a) == 1 and isinstance(a[0], Vec):
                return f'(FF.Vecs.{f[3:]} {a[0].lean()})'
            raise Unsupported('call ' + ast.unparse(n))
        raise Unsupported('expression ' + ast.unparse(n))

    def binop(self, op, l, r):
        if isinstance(l, Vec) and isinstance(r, Vec):
            if l.src == r.src:
                return Vec(l.src, f'({l.elem} {op} {r.elem})')
            le = l.elem.replace('x', 'p.1') if l.elem != 'x' else 'p.1'
            re_ = r.elem.replace('x', 'p.2') if r.elem != 'x' else 'p.2'
            if 'x' in (l.elem + r.elem).replace('x', '', 1) and (l.elem != 'x' or r.elem != 'x'):
                # keep it simple: only plain vectors are zipped
                raise Unsupported('zip of derived vectors')
            return Vec(f'(({l.src}.zip {r.src}).map (fun p => {le} {op} {re_}))')
        if isinstance(l, Vec):
            return Vec(l.src, f'({l.elem} {op} {r})')
        if isinstance(r, Vec):
            return Vec(r.src, f'({l} {op} {r.elem})')
        return f'({l} {op} {r})'

    def block(self, stmts, result):
        """assignments then `return`; `result`: index into a returned tuple, or None for a plain return"""
        for s in stmts:
            if isinstance(s, ast.Assign) and len(s.targets) == 1 and isinstance(s.targets[0], ast.Name):
                t = s.targets[0].id
                v = self.e(s.value)
                if isinstance(v, Vec):
                    self.vecs[t] = v
                    self.env.pop(t, None)
                else:
                    k = sum(1 for l in self.lines if l.startswith(f'let {t}'))
                    nm = t if k == 0 else f'{t}_{k}'
                    self.lines.append(f'let {nm} : α := {v}')
                    self.env[t] = nm
                    self.vecs.pop(t, None)
                continue
            if isinstance(s, ast.Return):
                val = s.value
                if result is not None:
                    if not isinstance(val, ast.Tuple):
                        raise Unsupported('return is not a tuple')
                    val = val.elts[result]
                v = self.e(val)
                if isinstance(v, Vec):
                    raise Unsupported('vector result')
                self.lines.append(v)
                return
            raise Unsupported('statement ' + ast.unparse(s)[:60])
        raise Unsupported('no return')


def find(tree, name):
    for n in ast.walk(tree):
        if isinstance(n, ast.FunctionDef) and n.name == name:
            return n
    raise Unsupported('function not found: ' + name)


def after(fn, marker):
    """the statements of `fn` after the first one whose source starts with `marker`"""
    for i, s in enumerate(fn.body):
        if ast.unparse(s).replace(' ', '').startswith(marker.replace(' ', '')):
            return fn.body[i + 1:]
    raise Unsupported('marker statement not found in ' + fn.name + ': ' + marker)


def emit(name, params, body_lines):
    out = [f'def {name} {params} : α :=']
    out += ['  ' + l for l in body_lines]
    return '\n'.join(out)


def generate():
    src = os.path.join(core.REPO, 'src', 'ffpack')
    sorm = ast.parse(open(os.path.join(src, 'rrm', 'secondOrderReliabilityMethod.py')).read())
    fosm = ast.parse(open(os.path.join(src, 'rrm', 'firstOrderSecondMoment.py')).read())
    miner = ast.parse(open(os.path.join(src, 'fdm', 'minerModel.py')).read())
    defs = []
    for py, lean in (('breitungSORM', 'breitungPf'), ('tvedtSORM', 'tvedtPf'), ('hrackSORM', 'hrackPf')):
        f = VFn(scalars=['beta'], vectors=['ks'])
        f.block(after(find(sorm, py), 'ks = np.array(ks, dtype=float)'), result=1)
        defs.append(f'/-- `{py}`: the returned `pf`, from `beta` and the main curvatures `ks` -/\n' +
                    emit(lean, '(cdf pdf : α → α) (beta : α) (ks : List α)', f.lines))
    f = VFn(scalars=['lsfRst'], vectors=['a', 'sigmas'])
    stm = after(find(fosm, 'mvalFOSM'), 'a = np.array([dgi(mus) for dgi in dg], dtype=float)')
    f.block(stm, result=0)
    defs.append('/-- `mvalFOSM`: the returned `beta`, from `lsfRst = g( mus )`, the gradient `a` at the means and `sigmas` -/\n' +
                emit('fosmBeta', '(cdf : α → α) (lsfRst : α) (a sigmas : List α)', f.lines))
    f = VFn(scalars=[], vectors=[], tables=['fatigueData'])
    f.block([s for s in find(miner, 'minerDamageModelNaive').body if isinstance(s, ast.Return)], result=None)
    defs.append('/-- `minerDamageModelNaive`: the returned damage, rows `( C_i, F_i )` -/\n' +
                emit('naiveDamage', '(fatigueData : List (α × α))', f.lines))
    text = ('/-\nGENERATED by harness/translate_vec.py from src/ffpack/rrm/secondOrderReliabilityMethod.py, rrm/firstOrderSecondMoment.py and\n'
            'fdm/minerModel.py — do not edit.  Vector expressions of numpy are `List.map` / folds; the standard normal cdf and pdf are parameters.\n-/\n'
            'import FFVerif.Model.Scalar\nnamespace FF.Vecs\nvariable {α : Type} [Transc α]\n'
            '/-- `np.prod` -/\ndef prod (l : List α) : α := l.foldl (· * ·) (Transc.lit 1 0)\n'
            '/-- `np.sum` -/\ndef sum (l : List α) : α := l.foldl (· + ·) (Transc.lit 0 0)\nend FF.Vecs\n\n'
            'namespace FF.Gen\nsection\nvariable {α : Type} [Transc α]\n\n' + '\n\n'.join(defs) + '\n\nend\nend FF.Gen\n')
    return text


def write():
    path = os.path.join(core.LEAN, 'FFVerif', 'Gen', 'VecFormulas.lean')
    try:
        text = generate()
    except (Unsupported, SyntaxError, KeyError, AttributeError, IndexError, TypeError, OSError) as e:
        return False, f'{type(e).__name__}: {e}'
    old = open(path).read() if os.path.exists(path) else None
    if old != text:
        with core.LeanLock():
            with open(path, 'w') as f:
                f.write(text)
    return old != text, None


def regenerate(res):
    changed, err = write()
    if err:
        res.disagreements.append({'what': 'translator cannot translate Gen/VecFormulas.lean from the current source', 'detail': err})
    if changed:
        res.notes.append('Gen/VecFormulas.lean regenerated (source text changed)')


if __name__ == '__main__':
    print('VecFormulas', *write())
